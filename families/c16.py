"""C16 — save() reports failure whenever the output did not take the whole file.

What is proved (Props/C16.lean, Lemmas/OStream.lean; all for ALL objects, ALL budgets k, no enumeration):
  * `fail_sticky`         once the stream's failure flag is set, every further stream operation of the writer
                          (`write`, `seekp`, seek-to-end, `adjust_stream_size`, any list of them) leaves the stream
                          unchanged — so the final `!stream.fail()` test of save() sees every earlier failure;
  * `content_le_budget`   a stream with byte budget k never holds more than k bytes, whatever is done to it;
  * `save_fail`           if the unlimited save of an object produces L bytes and k < L, the save of the same object
                          into a stream that accepts k bytes returns false (no hypothesis on the object: holds for
                          every header, section list, segment list, translation table, lazily loaded or not);
  * `save_ok`             if k >= L the budgeted save returns exactly what the unlimited save returns (same result
                          flag, same object) and the stream holds the same bytes; `save_ok_true`: with the unlimited
                          save returning true this is `true` + the complete file;
  * `save_unlimited_true` on an unlimited stream the write phase never fails when the translated header position is 0
                          and no table/section position is negative as a signed 64-bit number, i.e. save() returns
                          true whenever the layout did not refuse the object;
  * `save_null_header`    no header (`header == nullptr`) or an already failed stream => false, stream untouched;
  * `save_budget_witness` the return expression before commit 6e814a7 (`return is_still_good;`, kept as
                          `saveWriteOld`/`saveOld` for documentation; `saveOld_same_effects` ties the copy to `save`)
                          answers true for a two-section object and a stream that accepts 100 of its 144 bytes
                          (finding F1), while the repaired one answers false (`decide`).
  * `save_pair`           what precedes the write phase never looks at the stream: for two streams that have not failed
                          `save` takes the same path (fault / refusal / write phase with the same arguments);
                          `saveWrite_eq_ops`: the write phase is a fixed list of stream operations (`saveOps`) and
                          its result is `!fail` of the final stream.
  * buffered stream (`std::ofstream` over `std::filebuf`, Model/BStream.lean, Props/C16Buffered.lean): a put area of
    any size in front of the budgeted device reports a rejected write late (next write-through, seek or flush).
    `buffered_sim`: for every operation list, device state, put-area size and write-through threshold the buffered
    run followed by `flush()` leaves the device exactly as the unbuffered run leaves the stream (bytes, position,
    failure flag); `save_fail_buffered` / `save_ok_buffered`: the write-phase operations of `save` on such a stream
    followed by the final `stream.flush()` end failed for every k < L and every buffer size, and end good with the
    complete file on the device when the device takes everything; `buffered_delay_witness`: before that flush the
    buffered stream can still be good although the device is full (why `save` must flush before it tests `fail()`).
Proof idea of `save_fail`: a budgeted stream simulates the unlimited one until its first failure (`Sim`,
`sim_runStreamOps`), and it never holds more than k bytes; so a run that ends without failure ends with the unlimited
content, which has more than k bytes — contradiction.
The model of save() (Model/Writer.lean `save`/`saveWrite`) uses the generated result expressions of
`elfio::save`, `save_sections`, `save_segments`, `elf_header_impl::save` (Gen/SitesC16.lean) and the generated
layout arithmetic (Gen/SitesWriter.lean); Model/OStream.lean is the stream.

What is covered by correspondence + oracle only (runtime behaviour outside the model):
  * that Model/OStream.lean describes libstdc++'s `std::ostream` over a buffer that accepts exactly k bytes
    (`vh::budget_buf`) and over `std::ostringstream`: every case below compares the accepted bytes and the result of
    the real code with the model's, for every failure point;
  * the file-name overload `save(const std::string&)`: an unopenable path (`/nonexistent-dir-vh/x.elf`, a directory)
    and a full device (`/dev/full`) are `std::filebuf` behaviour.  The driver prints `save=false` for them *by rule*
    (it does not model the file system); the oracle demands false from the real code.  `kind=ok` (a temporary file)
    is compared with the unlimited stream save byte for byte.
  * `savefresh … file=1`: the file-name overload onto a real file that the operating system does not let grow
    beyond k bytes (RLIMIT_FSIZE in the harness child; the crossing write is cut short with EFBIG).  This is where
    the `stream.flush()` of the repair matters: without it the last buffered write is lost unnoticed.  The driver
    answers by rule with the result of the model's budget-k save; only the result flag is compared.
  * an `elfio` object without header cannot be produced through the harness (only through the
    `elfio(compression_interface*)` constructor); `save_null_header` is proof-only.

Cases: the object is built by a writer program (create/hset/addsec/addseg/segadd, 4 class/byte-order configurations)
or loaded (eagerly or lazily) from an encoder-built image or a bundled example.  `savefresh` saves a freshly rebuilt
copy of the object (so that every failure point sees the same, never-saved object): first without budget (the complete
file `full`, length L), then `savefresh rel=-j` = budget max(0, L-j).  "all-k" objects run j = 1..U with U >= L
(checked by the oracle: signature `generator:incomplete-k-range`), i.e. every k in 0..L-1, plus k = L, L+1, L+9;
larger objects get a boundary-biased sample in the quick tier.  Oracle (independent of the model): k < L => `save=false`
and the accepted content has length <= k and is prefix-consistent (every accepted byte is the final byte of `full` at
that position or a zero of the gap filling — checked for writer programs and bundled examples; encoder-built images
may carry a section 0 with data, which keeps its old offset and is later overwritten by the section header table, so
for them only the length is checked); k >= L => `save=true` and the bytes equal `full`; objects the generator
knows to be in the writer's domain must give `save=true` without budget; an object whose layout is refused (unlimited
save false, nothing written) must be refused for every budget as well.
"""
from families.loadcommon import *

PROPERTY = "C16"
FAMILY = "load"
LEAN_MODULE = "ElfioVerif.Props.C16"
THEOREMS = ["ElfioVerif.C16.fail_sticky", "ElfioVerif.C16.write_fail_sticky", "ElfioVerif.C16.content_le_budget",
            "ElfioVerif.C16.save_fail", "ElfioVerif.C16.save_ok", "ElfioVerif.C16.save_ok_true",
            "ElfioVerif.C16.save_unlimited_true", "ElfioVerif.C16.save_null_header",
            "ElfioVerif.C16.save_budget_witness", "ElfioVerif.C16.saveWrite_eq_ops", "ElfioVerif.C16.save_pair",
            "ElfioVerif.C16.save_fail_from", "ElfioVerif.C16.save_ok_from", "ElfioVerif.C16.saveOld_same_effects",
            "ElfioVerif.runStreamOps_fail_of_short", "ElfioVerif.runStreamOps_withBudget",
            # buffered stream (std::ofstream / std::filebuf), Props/C16Buffered.lean + Model/BStream.lean
            "ElfioVerif.OStream.write_append", "ElfioVerif.settled_runStreamOpsB",
            "ElfioVerif.C16.buffered_sim", "ElfioVerif.C16.buffered_sim_fail", "ElfioVerif.C16.buffered_fail_early",
            "ElfioVerif.C16.fail_sticky_buffered",
            "ElfioVerif.C16.ops_fail_buffered", "ElfioVerif.C16.ops_ok_buffered",
            "ElfioVerif.C16.save_fail_buffered", "ElfioVerif.C16.save_fail_buffered_all",
            "ElfioVerif.C16.save_ok_buffered", "ElfioVerif.C16.buffered_delay_witness"]
EXTRA_IMPORTS = ["ElfioVerif.Props.C16Buffered"]
SITES = ["save_", "lsws", "lst_", "lseg", "wsd"]
RULE = ("objects: random writer programs (0-5 extra sections of type PROGBITS/NOBITS/STRTAB/NOTE/NULL, data 0-48 bytes, "
        "alignments 0..64, 0-2 segments with member runs, optional explicit addresses) in ELF32/ELF64 x LSB/MSB, "
        "encoder-built images and bundled examples loaded eagerly or lazily; failure points: quick = every k in "
        "0..L+1 for the generated objects without page-aligned segments, the encoder-built images and the bundled "
        "examples <= 5 KB, and a boundary-biased sample (0, 1, header end +-1, program "
        "header table end, L-1, L, L+1, section-header-table boundaries, random) for larger ones; thorough = every k "
        "for every generated and example object <= 64 KiB; plus unopenable paths, /dev/full and files limited to k bytes "
        "(k around L and the last section header) through the file-name overload; one case = one object with up to 400 (3000 in digest mode) failure points. non-trivial = a budgeted save with 0 < k < L that the stream cut short; distinct by md5 of the case")
ASSUMPTIONS = ["std::ostream over vh::budget_buf / std::ostringstream behaves as Model/OStream.lean (validated by the "
               "correspondence on every case, not proved)",
               "file-name overload: std::filebuf and the operating system report open/write errors (ENOENT, EISDIR, "
               "ENOSPC) — exercised, not modelled"]
TRUSTED = ["harness ops savefresh/savefile of harness/load.cpp (rebuild of the object per failure point)"]
KEEP_FIRST = 1

EH = {32: 52, 64: 64}; PH = {32: 32, 64: 56}; SH = {32: 40, 64: 64}
SEC_NAMES = [b".text", b".data", b".bss", b".rodata", b".note", b".strtab", b".x", b".a_longer_section_name", b""]


# ------------------------------------------------------------------ objects

def gen_program(rng, cls, enc, page=False):
    """-> (lines, upper bound of the saved length, in_domain)"""
    lines = []
    if rng.random() < 0.9:
        lines.append(f"create cls={cls} enc={enc}")
    else:
        cls, enc = 32, "lsb"          # default-constructed object
    for f, hi in (("type", 4), ("machine", 200), ("flags", 1 << 32), ("entry", 1 << 31), ("os_abi", 255)):
        if rng.random() < 0.3:
            lines.append(f"hset {f} {rng.randrange(hi)}")
    nsec = rng.choice([0, 1, 1, 2, 2, 3, 4, 5])
    names = 1 + len(b".shstrtab") + 1
    bound = 0
    explicit = False
    secs = []
    for i in range(nsec):
        ty = rng.choice([1, 1, 1, 1, 8, 3, 7, 0])
        fl = rng.choice([0, 2, 2, 6, 3])
        al = rng.choice([0, 1, 1, 2, 4, 8, 16, 64])
        nm = rng.choice(SEC_NAMES)
        names += len(nm) + 1
        n = rng.choice([0, 1, 3, 8, 16, rng.randint(0, 48)])
        l = f"addsec name={hx(nm)} type={ty} flags={fl} align={al}"
        if rng.random() < 0.2:
            l += f" entsize={rng.choice([1, 4, 16])}"
        if rng.random() < 0.15:
            l += f" link={rng.randrange(4)} info={rng.randrange(4)}"
        if ty == 8:
            l += f" size={n}"
        else:
            l += f" data={hx(bytes(rng.randrange(256) for _ in range(n)))}"
            bound += n
        bound += max(al, 1)
        secs.append((2 + i, al))
        lines.append(l)
    bound += names + 1
    nseg = rng.choice([0, 0, 0, 1, 1, 2]) if nsec else rng.choice([0, 0, 1])
    free = [s for s, _ in secs]
    member_of = {}
    for j in range(nseg):
        ty = rng.choice([1, 1, 1, 4, 6])
        al = rng.choice([0, 1, 4, 16, 64]) if not page else rng.choice([0x1000, 0x1000, 0x200])
        va = rng.choice([0, 0x1000, 0x8048000, 0x400000 + rng.randrange(64)])
        lines.append(f"addseg type={ty} flags={rng.randrange(8)} align={al} vaddr={va} paddr={va}")
        mal = al
        if free and ty != 6:
            a = rng.randrange(len(free)); b = rng.randint(a, min(len(free) - 1, a + 2))
            for s in free[a:b + 1]:
                lines.append(f"segadd {j} {s}")
                mal = max(mal, dict(secs)[s])
                member_of[s] = va
            free = free[:a] + free[b + 1:]
        bound += 2 * max(mal, 1)
    if nsec and rng.random() < 0.12:
        # an explicit section address: the layout places the member at (address - segment address) and may
        # refuse the object when that lies before the cursor (not a stream failure)
        explicit = True
        k = 2 + rng.randrange(nsec)
        off = rng.choice([0, 16, 64, 200])
        lines.append(f"secset {k} addr {member_of.get(k, rng.choice([0x1000, 0x8048000])) + off}")
        bound += 2 * off + 64
    total = EH[cls] + nseg * PH[cls] + bound + 16 + (nsec + 2) * SH[cls]
    return lines, total, not explicit


def tame_image(rng, cls, enc):
    """encoder-built image whose addresses follow the file offsets and whose alignments are small, so that the
    re-layout done by save() keeps the file about as large as it was (wild addresses make save() zero-fill gaps
    of gigabytes — legal, but useless here)"""
    m = elfspec.random_model(rng, cls, enc, max_data=rng.choice([8, 32, 96]))
    base = rng.choice([0, 0x1000, 0x400000])
    for s in m.sections:
        s["sh_addralign"] = rng.choice([0, 1, 1, 4, 8, 16])
        s["sh_addr"] = base + s["sh_offset"]
        if s["data"] is None:
            s["sh_size"] = min(s["sh_size"], 64)
    for g in m.segments:
        g["p_align"] = rng.choice([0, 1, 8, 16, 0x1000])
        g["p_vaddr"] = base + g["p_offset"]
        g["p_memsz"] = g["p_filesz"] + rng.choice([0, 0, 16])
    return elfspec.encode(m)


def image_bound(img):
    d = elfspec.decode(img)
    b = len(img) + 64
    if d:
        for s in d["sections"]:
            b += max(1, min(s["sh_addralign"], 1 << 13)) + (s["sh_size"] if s["data"] is not None else 0)
        for g in d["segments"]:
            b += 2 * max(1, min(g["p_align"], 1 << 13))
        b += len(d["sections"]) * SH[d["cls"]] + len(d["segments"]) * PH[d["cls"]]
    return b


def boundary_js(rng, cls, nsec, nseg, est, n_rand):
    """sample of (kind, value) failure points for objects too large for all-k in the quick tier"""
    ks = {0, 1, 2, EH[cls] - 1, EH[cls], EH[cls] + 1, EH[cls] + nseg * PH[cls] - 1, EH[cls] + nseg * PH[cls],
          EH[cls] + nseg * PH[cls] + 1}
    js = {1, 2, 3}
    for i in range(nsec + 1):
        for d in (-1, 0, 1):
            js.add(max(1, i * SH[cls] + d))           # boundaries of the section header table (it ends the file)
    for _ in range(n_rand):
        r = rng.random()
        if r < 0.4: ks.add(rng.randrange(max(est, 1)))
        elif r < 0.7: js.add(rng.randint(1, (nsec + 1) * SH[cls] + 32))
        else: js.add(rng.randint(1, max(est, 2)))
    return sorted(k for k in ks if k >= 0), sorted(js)


def save_cases(cid, build, est_len, cls, nsec, nseg, allk, rng, meta, n_rand=12):
    """cases for one object: all failure points (allk) or a sample"""
    mode = "" if est_len <= 1600 else " out=sum"
    chunk = 400 if not mode else 3000
    head = build + ["savefresh" + mode]
    m = dict(meta, nbuild=len(build), allk=bool(allk))
    if allk:
        U = est_len
        ops = [f"savefresh rel={r}{mode}" for r in (0, 1, 9)] + [f"savefresh rel=-{j}{mode}" for j in range(1, U + 1)]
        parts = [ops[i:i + chunk] for i in range(0, len(ops), chunk)]
        for pi, part in enumerate(parts):
            yield {"id": f"{cid}p{pi}", "lines": head + part, "meta": dict(m, U=U, part=pi, parts=len(parts))}
    else:
        ks, js = boundary_js(rng, cls, nsec, nseg, est_len, n_rand)
        ops = [f"savefresh budget={k}{mode}" for k in ks] + [f"savefresh rel=-{j}{mode}" for j in js] + \
              [f"savefresh rel=0{mode}", f"savefresh rel=1{mode}"]
        yield {"id": cid, "lines": head + ops, "meta": m}


def gen_cases(rng, tier):
    quick = tier == "quick"
    # A. generated writer programs, all failure points
    nA = 48 if quick else 200
    for i in range(nA):
        cls, enc = CFGS[i % 4]
        build, est, dom = gen_program(rng, cls, enc)
        if not (build and build[0].startswith("create")):
            cls = 32
        nsec = 2 + sum(1 for l in build if l.startswith("addsec")); nseg = sum(1 for l in build if l.startswith("addseg"))
        yield from save_cases(f"prog{i}", build, est, cls, nsec, nseg, True, rng,
                              {"kind": "program", "expect_ok": dom, "cls": cls})
    # B. generated programs with page-aligned segments (files of 4-12 KiB): sample (quick) / all (thorough)
    nB = 40 if quick else 60
    for i in range(nB):
        cls, enc = CFGS[i % 4]
        build, est, dom = gen_program(rng, cls, enc, page=True)
        if not (build and build[0].startswith("create")):
            cls = 32
        nsec = 2 + sum(1 for l in build if l.startswith("addsec")); nseg = sum(1 for l in build if l.startswith("addseg"))
        yield from save_cases(f"page{i}", build, est, cls, nsec, nseg, (not quick) or i < 6, rng,
                              {"kind": "program", "expect_ok": dom, "cls": cls})
    # C. encoder-built images, loaded (eager/lazy) then saved
    nC = 24 if quick else 120
    for i in range(nC):
        cls, enc = CFGS[i % 4]
        img = tame_image(rng, cls, enc)
        ns, ng = counts(img)
        build = [f"load {hx(img)} lazy={rng.choice([0, 1])} kind=str"]
        allk = True
        yield from save_cases(f"img{i}", build, image_bound(img), cls, ns, ng, allk, rng,
                              {"kind": "image", "expect_ok": None, "cls": cls})
    # D. bundled examples
    # bundled examples that are well-formed ELF files (the crash-* inputs and files the loader rejects leave
    # an object in no specified state: outside the domain)
    exs = [(f, b) for f, b in examples(65536) if elfspec.wellformed(b) and not f.startswith("crash")]
    if quick:
        small = [e for e in exs if len(e[1]) <= 5000]
        for f, b in small:
            ns, ng = counts(b); cls = 32 if b[4] == 1 else 64
            yield from save_cases(f"ex-{f}", [f"load {hx(b)} lazy=0 kind=str"], image_bound(b), cls, ns, ng, True, rng,
                                  {"kind": "example", "expect_ok": None, "cls": cls, "file": f})
        rest = [e for e in exs if e not in small]
        rng.shuffle(rest)
        for f, b in rest[:10]:
            ns, ng = counts(b); cls = 32 if b[4] == 1 else 64
            yield from save_cases(f"ex-{f}", [f"load {hx(b)} lazy={rng.choice([0, 1])} kind=str"], image_bound(b), cls,
                                  ns, ng, False, rng, {"kind": "example", "expect_ok": None, "cls": cls, "file": f}, 10)
    else:
        for f, b in exs:
            ns, ng = counts(b); cls = 32 if b[4] == 1 else 64
            yield from save_cases(f"ex-{f}", [f"load {hx(b)} lazy=0 kind=str"], image_bound(b), cls, ns, ng, True, rng,
                                  {"kind": "example", "expect_ok": None, "cls": cls, "file": f})
    # E. file-name overload: unopenable paths, full device, writable file
    nE = 16 if quick else 64
    for i in range(nE):
        cls, enc = CFGS[i % 4]
        if i % 3 == 2 and exs:
            f, b = exs[rng.randrange(len(exs))] if not quick else rng.choice([e for e in exs if len(e[1]) < 30000])
            build = [f"load {hx(b)} lazy={i % 2} kind=str"]; dom = None
        else:
            build, _, dom = gen_program(rng, cls, enc, page=(i % 4 == 1))
        # `ok` before `full`: both run the layout on the same object and a second layout of an object may differ
        # from the first (finding F13 of C06), the comparison with `full` needs the first
        kinds = ["nodir", "dir", "ok"]
        rng.shuffle(kinds)
        kinds.insert(rng.randint(kinds.index("ok") + 1, 3), "full")
        lines = build + ["savefresh out=sum"] + [f"savefile kind={k} out=sum" for k in kinds]
        yield {"id": f"file{i}", "lines": lines, "meta": {"kind": "file", "expect_ok": dom, "nbuild": len(build), "allk": False}}
    # G. file-name overload onto a real file that cannot grow beyond k bytes (RLIMIT_FSIZE): here the final
    # `flush()` of save() matters — the last write stays in the filebuf's buffer unless a seek follows it, so objects
    # whose last write ends the file (last section without data, no segments) are forced in half of the cases
    nG = 24 if quick else 200
    for i in range(nG):
        cls, enc = CFGS[i % 4]
        build, est, dom = gen_program(rng, cls, enc)
        if not (build and build[0].startswith("create")):
            cls = 32
        if i % 2 == 0:
            build = [l for l in build if not l.startswith(("addseg", "segadd"))]
            build.append(rng.choice([f"addsec name={hx(b'.bss')} type=8 flags=3 align=4 size={rng.randrange(64)}",
                                     f"addsec name={hx(b'.e')} type=1 flags=0 align=1",
                                     f"addsec name={hx(b'.n')} type=0 flags=0 align=0 data=0102"]))
        js = sorted({1, 2, 3, SH[cls] - 1, SH[cls], SH[cls] + 1, 2 * SH[cls], rng.randint(1, 60), rng.randint(1, max(2, est))})
        lines = build + ["savefresh out=sum", "savefresh file=1", "savefresh rel=0 file=1", "savefresh rel=7 file=1",
                         "savefresh budget=0 file=1", f"savefresh budget={EH[cls]} file=1"] + \
                [f"savefresh rel=-{j} file=1" for j in js]
        yield {"id": f"lim{i}", "lines": lines, "meta": {"kind": "limited-file", "expect_ok": dom, "nbuild": len(build), "allk": False}}
    # F. the plain `save` op on one object: failed save, then retry on a good stream; observation afterwards
    nF = 16 if quick else 100
    for i in range(nF):
        cls, enc = CFGS[i % 4]
        small_ex = [e for e in exs if len(e[1]) <= 2500]
        if i % 2 and small_ex:
            # (objects whose layout is refused are avoided here: the model does not track the partially laid out
            # state the real object is left in, see Model/Writer.lean `save`)
            f, img = rng.choice(small_ex)
            build = [f"load {hx(img)} lazy={rng.choice([0, 1])} kind=str"]; dom = None
            ns, ng = counts(img); cls = 32 if img[4] == 1 else 64
        else:
            build, _, dom = gen_program(rng, cls, enc)
            while not dom:
                build, _, dom = gen_program(rng, cls, enc)
            if not (build and build[0].startswith("create")):
                cls = 32
            ns = 2 + sum(1 for l in build if l.startswith("addsec")); ng = sum(1 for l in build if l.startswith("addseg"))
        k = rng.choice([0, 10, EH[cls], EH[cls] + 5, 150, 300, rng.randrange(600)])
        lines = build + ["savefresh", f"save budget={k}", "hdr"] + [f"sec {s}" for s in range(ns)] + \
                [f"seg {g} data=0" for g in range(ng)] + ["save", "save budget=100000"]
        yield {"id": f"retry{i}", "lines": lines, "meta": {"kind": "retry", "expect_ok": dom, "nbuild": len(build), "allk": False}}


# ------------------------------------------------------------------ oracle

def parse_save(line):
    """-> (ok, bytes or None, length, fnv or None)"""
    d = kvline(line)
    ok = d.get("save") == "true"
    if "bytes" in d:
        b = b"" if d["bytes"] == "-" else bytes.fromhex(d["bytes"])
        return ok, b, len(b), None
    return ok, None, int(d.get("len", "0")), int(d.get("fnv", "0"))


def same_content(a, b):
    """two parsed save lines describe the same bytes"""
    if a[2] != b[2]:
        return False
    if a[1] is not None and b[1] is not None:
        return a[1] == b[1]
    fa = a[3] if a[3] is not None else fnv(a[1])
    fb = b[3] if b[3] is not None else fnv(b[1])
    return fa == fb


def budget_of(tok, L):
    d = dict(x.split("=", 1) for x in tok[1:] if "=" in x)
    if "rel" in d:
        return max(0, L + int(d["rel"]))
    if "budget" in d:
        return int(d["budget"])
    return None


def ref_index(lines):
    """index of the reference save: the first `savefresh` without budget"""
    for i, l in enumerate(lines):
        t = l.split()
        if t[0] == "savefresh" and not any(x.startswith("budget=") or x.startswith("rel=") for x in t[1:]):
            return i
    return None


def oracle(case, out):
    v = []
    lines = case["lines"]; meta = case["meta"]
    for i, o in enumerate(out):
        if o.startswith("FAULT"):
            return [{"signature": "fault:" + lines[min(i, len(lines) - 1)].split()[0], "what": o}]
    nb = ref_index(lines)
    if nb is None:
        return []                      # (a shrunk case that lost its reference save: nothing to judge)
    if len(out) <= nb or not out[nb].startswith("save="):
        return [{"signature": "no-transcript", "what": f"no result for the unlimited save ({out[-1:] if out else ''})"}]
    full = parse_save(out[nb]); L = full[2]
    if meta.get("expect_ok") is True and not full[0]:
        v.append({"signature": "save-false-on-good-stream",
                  "what": f"unlimited stream, object in the writer's domain: save() returned false ({L} bytes written)"})
    seen = set()
    for i in range(nb + 1, min(len(out), len(lines))):
        tok = lines[i].split()
        if not out[i].startswith("save="):
            continue
        r = parse_save(out[i])
        if tok[0] == "savefile":
            kind = kvline(lines[i]).get("kind")
            if kind in ("nodir", "dir", "full"):
                if r[0] and (kind != "full" or L > 0):
                    v.append({"signature": "savefile-true:" + kind,
                              "what": f"save(file name) returned true for {kind} (nothing can have been stored)"})
            elif kind == "ok":
                if r[0] != full[0] or not same_content(r, full):
                    v.append({"signature": "savefile-differs", "what": "file written through the file-name overload differs from the stream save"})
            continue
        if tok[0] == "save" and meta["kind"] == "retry":
            k = budget_of(tok, L)
            if k is not None and k < L and i == nb + 1 and r[0]:
                v.append({"signature": "save-true-despite-failure", "what": f"budget {k} < {L}: save() returned true"})
            if k is not None and i == nb + 1 and r[2] > k:
                v.append({"signature": "budget-exceeded", "what": f"stream with budget {k} holds {r[2]} bytes"})
            continue          # later saves of an already laid-out object: correspondence only
        if tok[0] != "savefresh":
            continue
        k = budget_of(tok, L)
        if k is None:
            continue
        seen.add(k)
        if not full[0]:
            # the unlimited save itself returned false: the layout refused the object, or a seek failed (a table
            # position that is negative as a stream offset) — then no budget may turn that into a success
            if r[0] or r[2] > min(k, L):
                v.append({"signature": "refused-object-saved", "what": f"unlimited save returned false after {L} bytes, budget {k} gives save={r[0]} with {r[2]} bytes"})
            continue
        if "file=1" in tok:
            # file-name overload onto a file that cannot grow beyond k bytes: only the result is observed
            if full[0] and k < L and r[0]:
                v.append({"signature": "save-true-despite-failure:file",
                          "what": f"file limited to {k} of {L} bytes: save(file name) returned true"})
            if full[0] and k >= L and not r[0]:
                v.append({"signature": "save-false-on-good-stream:file", "what": f"file limit {k} >= {L}: save(file name) returned false"})
            if not full[0] and r[0]:
                v.append({"signature": "refused-object-saved", "what": f"unlimited save returned false, limited file save true"})
            continue
        if k < L:
            if r[0]:
                v.append({"signature": "save-true-despite-failure",
                          "what": f"the stream accepted {r[2]} of {L} bytes (budget {k}) and save() returned true"})
            if r[2] > k:
                v.append({"signature": "budget-exceeded", "what": f"stream with budget {k} holds {r[2]} bytes"})
            if r[1] is not None and full[1] is not None and meta["kind"] in ("program", "example"):
                fb = full[1]
                for p, x in enumerate(r[1]):
                    if x != 0 and (p >= L or x != fb[p]):
                        v.append({"signature": "partial-content",
                                  "what": f"budget {k}: accepted byte {p} = {x} is neither a fill zero nor the final byte {fb[p] if p < L else None}"})
                        break
        else:
            if not r[0]:
                v.append({"signature": "save-false-on-good-stream", "what": f"budget {k} >= {L}: save() returned false"})
            if not same_content(r, full):
                v.append({"signature": "content-differs", "what": f"budget {k} >= {L}: stream content differs from the complete file"})
        if len(v) > 4:
            break
    if meta.get("allk") and full[0] and "U" in meta and meta["U"] < L:
        v.append({"signature": "generator:incomplete-k-range", "what": f"all-k case enumerates {meta['U']} failure points, file has {L} bytes"})
    return v[:5]


def nontrivial(case, out):
    nb = ref_index(case["lines"])
    if nb is None:
        return False
    if len(out) <= nb + 1 or not out[nb].startswith("save=true"):
        return False
    L = parse_save(out[nb])[2]
    for l, o in zip(case["lines"][nb + 1:], out[nb + 1:]):
        t = l.split()
        if t[0] in ("savefresh", "save") and o.startswith("save="):
            k = budget_of(t, L)
            if k is not None and 0 < k < L:
                return True
        if t[0] == "savefile" and "kind=full" in l:
            return True
    return False


def classify(case, out):
    m = case["meta"]
    ks = [m["kind"], "all-k" if m.get("allk") else "sampled-k"]
    nb = ref_index(case["lines"])
    if nb is not None and len(out) > nb and out[nb].startswith("save="):
        full = parse_save(out[nb]); L = full[2]
        ks.append("unlimited-save-true" if full[0] else "layout-refused")
        ks.append("len<=1K" if L <= 1024 else "len<=8K" if L <= 8192 else "len<=64K" if L <= 65536 else "len>64K")
        nf = nt = 0
        for l, o in zip(case["lines"][nb + 1:], out[nb + 1:]):
            if o.startswith("save=false"): nf += 1
            elif o.startswith("save=true"): nt += 1
        if nf: ks.append("has-failing-budget")
        if nt: ks.append("has-sufficient-budget")
    return ks
