"""C03 — a file built through the API decodes, per the ELF spec, to what was put in.

Proof (Props/C03.lean; details in that file's header): record encoders = specification codec
(`encodeShdr_spec_bytes`, `encodeShdr_eq_spec`, `encodePhdr_*`, `decode*_encode*`), header setters
(`hdr_set_get`, `hdr_set_frame`, ...), construction (`create_inv`, `sectionsAdd_name`), the stream
(`saveSection_writes`), and the composition `save_decodes` / `save_decode_fields` / `save_decode_header`
(saved bytes decode, per the specification, to the object's header, sections incl. data, segments) under
C04's disjointness taken as hypothesis `LayoutOk` - all rungs (no / flat / nested segments) at once.  Correspondence: harness/load.cpp (real API: create, setters,
sections.add, set_data, segments.add, add_section_index, save) vs Driver/Load.lean (Model/Writer.lean)
— saved bytes compared in full.  Oracle: tools/elfspec.decode of the implementation's bytes vs the
program's inputs.  Compression interface: not exercised (objects are constructed without one; with
one, data of SHF_COMPRESSED sections goes through the user's deflate — outside the model).
"""
from families.writercommon import *

PROPERTY = "C03"
FAMILY = "load"
LEAN_MODULE = "ElfioVerif.Props.C03"
THEOREMS = ["ElfioVerif.C03.encodeShdr_spec_bytes",
            "ElfioVerif.C03.encodePhdr_spec_bytes",
            "ElfioVerif.C03.encodeShdr_eq_spec",
            "ElfioVerif.C03.encodePhdr_eq_spec",
            "ElfioVerif.C03.decodeShdr_encodeShdr",
            "ElfioVerif.C03.decodePhdr_encodePhdr",
            "ElfioVerif.C03.hdr_set_get_spec",
            "ElfioVerif.C03.hdr_set_frame_spec",
            "ElfioVerif.C03.hdr_set_get",
            "ElfioVerif.C03.hdr_set_frame",
            "ElfioVerif.C03.hdr_set_ident_get",
            "ElfioVerif.C03.create_eq",
            "ElfioVerif.C03.create_header",
            "ElfioVerif.C03.create_inv",
            "ElfioVerif.C03.sectionsAdd_name",
            "ElfioVerif.C03.saveSection_writes",
            "ElfioVerif.C03.save_decodes",
            "ElfioVerif.C03.save_decodes_header",
            "ElfioVerif.C03.save_decodes_section",
            "ElfioVerif.C03.save_decodes_segment",
            "ElfioVerif.C03.save_header_fields",
            "ElfioVerif.C03.save_decode_fields",
            "ElfioVerif.C03.save_decode_header",
            "ElfioVerif.C03.save_image_header",
            "ElfioVerif.C03.secWrites_pairwise",
            "ElfioVerif.C03.layoutOk_of_zones"]
SITES = ["conv", "save_", "lsws", "lst_", "lseg", "wsd", "sec32_set", "sec64_set", "sec32_insert", "sec64_insert"]
RULE = ("API construction programs from a random-model generator (0-8 sections of mixed types/flags/alignments/"
        "sizes incl. empty and no-bits, 0-4 segments incl. nested ones and a section-less PT_PHDR, explicit or "
        "automatic addresses, full-width header values) x 4 class/byte-order configurations; non-trivial = at "
        "least 2 user sections and the save succeeded; distinct by md5")
ASSUMPTIONS = ["no user compression interface", "file size < 2^32 (ELF32) / 2^63"]
TRUSTED = ["tools/elfspec.py decoder"]
KEEP_FIRST = 1


def gen_cases(rng, tier):
    n = 160 if tier == "quick" else 2000
    for i in range(n):
        cls, enc = CFGS[i % 4]
        p = gen_program(rng, cls, enc)
        yield {"id": f"p{i}", "lines": to_lines(p) + ["save"], "meta": {"prog": jsonable(p)}}


def jsonable(p):
    q = dict(p); q["secs"] = []
    for s in p["secs"]:
        t = dict(s); t["name"] = s["name"].hex(); t["data"] = None if s["data"] is None else s["data"].hex()
        q["secs"].append(t)
    return q


def unjson(q):
    p = dict(q); p["secs"] = []
    for s in q["secs"]:
        t = dict(s); t["name"] = bytes.fromhex(s["name"]); t["data"] = None if s["data"] is None else bytes.fromhex(s["data"])
        p["secs"].append(t)
    return p


def oracle(case, out):
    for i, o in enumerate(out):
        if o.startswith("FAULT"):
            return [{"signature": "fault:" + case["lines"][min(i, len(case["lines"]) - 1)].split()[0], "what": o}]
    if not out or not out[-1].startswith("save="):
        return []
    prog = unjson(case["meta"]["prog"])
    ok, img = saved_bytes(out[-1])
    if not ok:
        return [{"signature": "save-failed", "what": "save() returned false for a writer-domain program"}]
    return [{"signature": "c03:" + k, "what": w} for k, w in check_c03(prog, img)][:3]


def nontrivial(case, out):
    return len(case["meta"]["prog"]["secs"]) >= 2 and bool(out) and out[-1].startswith("save=true")


def classify(case, out):
    p = case["meta"]["prog"]
    ks = [f"cls{p['cls']}-{p['enc']}", f"nsec{min(len(p['secs']), 8)}", f"nseg{len(p['segs'])}"]
    if any(g.get("nested") for g in p["segs"]): ks.append("nested")
    if any(g.get("explicit") and g["members"] for g in p["segs"]): ks.append("explicit-addr")
    if any(s["type"] == 8 for s in p["secs"]): ks.append("nobits")
    return ks
