"""C03 — a file built through the API decodes, per the ELF spec, to what was put in.

Proof (Props/C03.lean; details in that file's header): record encoders = specification codec
(`encodeShdr_spec_bytes`, `encodeShdr_eq_spec`, `encodePhdr_*`, `decode*_encode*`), header setters
(`hdr_set_get`, `hdr_set_frame`, ...), construction (`create_inv`, `sectionsAdd_name`), the stream
(`saveSection_writes`), and the composition `save_decodes` / `save_decode_fields` / `save_decode_header`
(saved bytes decode, per the specification, to the object's header, sections incl. data, segments) under
C04's disjointness taken as hypothesis `LayoutOk` - all rungs (no / flat / nested segments) at once.
COMPOSITION WITH C04 (Props/C03Compose.lean): `layoutOk_of_save` derives `LayoutOk` for EVERY successful save
from C04.layout_disjoint via layoutOk_of_zones; `save_segFit` shows the saved segments fit the class's fields
(ELF32); `save_decode_fields_of_save` / `save_decode_header_of_save` are save_decode_fields / save_decode_header
with no layout hypothesis left: the hypotheses are the success of save into a good stream and `SaveDomain o hdr`,
decidable facts about the INPUT object only - C04's (fewer than 2^16 sections, no file-occupying section with
index 0, no cursor wrap `layoutNW (preSave o) hdr`), table bookkeeping `TablesOk` (header buffer of sizeof(Ehdr)
bytes with e_ehsize saying so, e_shentsize/e_phentsize >= the record sizes, < 2^16 segments, sections/segments
carry their position as index; Bool form `tablesOkB`), the size assumption `fileSmallB` (section header table ends
below 2^63 and its offset fits e_shoff), no address translation, section/segment fields fit the class
(`FieldsFit`/`SegFit`, trivial in ELF64).  `exBuilt_domain`: an object made through the model's
create/sectionsAdd/set_data/segmentsAdd/segAddSection (PT_LOAD over .text+.note, nested PT_NOTE, loose section)
is in SaveDomain and its save succeeds.  COMPOSITION WITH THE LOADER (Props/Compose.lean, Lemmas/RoundTrip.lean): the decoder of `save_decode_fields` is
replaced by the model's `load`: `Compose.reload_reports_saved` (+ `_noseg`, `_flat`; see families/c02.py) — loading
the saved bytes succeeds and reports every header/section/segment field, the section NAMES (the string the saved
name table holds at the name offset, `RoundTrip.nameIn`; hypothesis `SaveInput.names`: every name offset of the
input points at a terminated string of its resident name table - what sections.add establishes, `sectionsAdd_name`)
and the section data.  RoundTrip.imageOk_of_save / segInside_flat / savedSane_flat are the writer-side lemmas.
Still missing: compression.  Correspondence: harness/load.cpp (real API: create, setters,
sections.add, set_data, segments.add, add_section_index, save) vs Driver/Load.lean (Model/Writer.lean)
— saved bytes compared in full.  Oracle: tools/elfspec.decode of the implementation's bytes vs the
program's inputs.  Compression interface: not exercised (objects are constructed without one; with
one, data of SHF_COMPRESSED sections goes through the user's deflate — outside the model).
"""
from families.writercommon import *

PROPERTY = "C03"
FAMILY = "load"
LEAN_MODULE = "ElfioVerif.Props.C03Compose"
THEOREMS = ["ElfioVerif.C03.encodeShdr_spec_bytes",
            "ElfioVerif.C03.encodePhdr_spec_bytes",
            "ElfioVerif.C03.encodeShdr_eq_spec",
            "ElfioVerif.C03.encodePhdr_eq_spec",
            "ElfioVerif.C03.decodeShdr_encodeShdr",
            "ElfioVerif.C03.decodePhdr_encodePhdr",
            "ElfioVerif.C03.hdr_set_get_spec",
            "ElfioVerif.C03.hdr_set_frame_spec",
            "ElfioVerif.C03.hdr_set_get",
            "ElfioVerif.C03.hdr_set_frame",
            "ElfioVerif.C03.hdr_set_ident_get",
            "ElfioVerif.C03.create_eq",
            "ElfioVerif.C03.create_header",
            "ElfioVerif.C03.create_inv",
            "ElfioVerif.C03.sectionsAdd_name",
            "ElfioVerif.C03.saveSection_writes",
            "ElfioVerif.C03.save_decodes",
            "ElfioVerif.C03.save_decodes_header",
            "ElfioVerif.C03.save_decodes_section",
            "ElfioVerif.C03.save_decodes_segment",
            "ElfioVerif.C03.save_header_fields",
            "ElfioVerif.C03.save_decode_fields",
            "ElfioVerif.C03.save_decode_header",
            "ElfioVerif.C03.save_image_header",
            "ElfioVerif.C03.secWrites_pairwise",
            "ElfioVerif.C03.layoutOk_of_zones",
            "ElfioVerif.C03.layoutOk_of_save",
            "ElfioVerif.C03.save_segFit",
            "ElfioVerif.C03.save_decode_fields_of_save",
            "ElfioVerif.C03.save_decode_header_of_save",
            "ElfioVerif.C03.exBuilt_domain",
            "ElfioVerif.RoundTrip.imageOk_of_save",
            "ElfioVerif.RoundTrip.segInside_flat",
            "ElfioVerif.Compose.reload_reports_saved_noseg",
            "ElfioVerif.Compose.reload_reports_saved_flat"]
EXTRA_IMPORTS = ["ElfioVerif.Props.Compose"]
SITES = ["conv", "save_", "lsws", "lst_", "lseg", "wsd", "sec32_set", "sec64_set", "sec32_insert", "sec64_insert"]
RULE = ("API construction programs from a random-model generator (0-8 sections of mixed types/flags/alignments/"
        "sizes incl. empty and no-bits, 0-4 segments incl. nested ones and a section-less PT_PHDR, explicit or "
        "automatic addresses, full-width header values) x 4 class/byte-order configurations; non-trivial = at "
        "least 2 user sections and the save succeeded; distinct by md5")
ASSUMPTIONS = ["no user compression interface", "file size < 2^32 (ELF32) / 2^63"]
TRUSTED = ["tools/elfspec.py decoder"]
KEEP_FIRST = 1


def gen_explicit_tail(rng, cls, enc):
    """a PT_LOAD whose members carry explicit addresses although they occupy no file space: an empty section
    and/or a NOBITS section placed with a gap after the data (the typical `.bss` at an aligned address).
    The writer must keep such an address (seeded change c03-explicit-address-overwritten-nobits-empty);
    gen_program avoids explicit NOBITS addresses because of finding F14, which concerns p_memsz (C04),
    not what C03 compares."""
    base = 0x400000 + rng.choice([0, 0x1000, 0x234])
    n = rng.choice([5, 16, 33, 100])
    secs = [{"name": b".text", "type": 1, "flags": 6, "align": rng.choice([1, 4, 16]), "entsize": 0, "link": 0, "info": 0,
             "addr": base, "data": rnd_bytes(rng, n), "size": n}]
    a = base + n
    if rng.random() < 0.6:
        a += rng.choice([0, 3, 0x30])
        secs.append({"name": b".empty", "type": 1, "flags": 2, "align": rng.choice([1, 8]), "entsize": 0, "link": 0,
                     "info": 0, "addr": a, "data": b"", "size": 0})
    if rng.random() < 0.8 or len(secs) == 1:
        a += rng.choice([1, 0x10, 0xf0, 0x1000])
        secs.append({"name": b".bss", "type": 8, "flags": 3, "align": rng.choice([1, 16, 32]), "entsize": 0, "link": 0,
                     "info": 0, "addr": a, "data": None, "size": rng.choice([4, 0x100, 5000])})
    if rng.random() < 0.4:
        m = rng.choice([8, 24])
        secs.append({"name": b".data", "type": 1, "flags": 3, "align": 8, "entsize": 0, "link": 0, "info": 0,
                     "addr": None, "data": rnd_bytes(rng, m), "size": m})
    members = [i + 2 for i, s in enumerate(secs) if s["addr"] is not None]
    segs = [{"type": 1, "flags": 6, "align": rng.choice([0, 0x10, 0x1000]), "vaddr": base, "paddr": base,
             "members": members, "explicit": True}]
    return {"cls": cls, "enc": enc,
            "hdr": {"type": 2, "machine": 62, "flags": 0, "entry": base, "os_abi": 0, "abi_version": 0},
            "secs": secs, "segs": segs}


def gen_cases(rng, tier):
    n = 160 if tier == "quick" else 2000
    for i in range(n):
        cls, enc = CFGS[i % 4]
        p = gen_program(rng, cls, enc)
        yield {"id": f"p{i}", "lines": to_lines(p) + ["save"], "meta": {"prog": jsonable(p)}}
    for i in range(n // 5):
        cls, enc = CFGS[i % 4]
        p = gen_explicit_tail(rng, cls, enc)
        yield {"id": f"xt{i}", "lines": to_lines(p) + ["save"], "meta": {"prog": jsonable(p)}}
    # a thread-local data section among a PT_LOAD's members, with / without a nested PT_TLS (gen_program never sets SHF_TLS)
    for i in range(8 if tier == "quick" else 80):
        cls, enc = CFGS[i % 4]
        p = gen_tls_program(rng, cls, enc, tls_seg=(i // 4) % 2 == 0)
        yield {"id": f"tls{i}", "lines": to_lines(p) + ["save"], "meta": {"prog": jsonable(p)}}


def jsonable(p):
    q = dict(p); q["secs"] = []
    for s in p["secs"]:
        t = dict(s); t["name"] = s["name"].hex(); t["data"] = None if s["data"] is None else s["data"].hex()
        q["secs"].append(t)
    return q


def unjson(q):
    p = dict(q); p["secs"] = []
    for s in q["secs"]:
        t = dict(s); t["name"] = bytes.fromhex(s["name"]); t["data"] = None if s["data"] is None else bytes.fromhex(s["data"])
        p["secs"].append(t)
    return p


def oracle(case, out):
    for i, o in enumerate(out):
        if o.startswith("FAULT"):
            return [{"signature": "fault:" + case["lines"][min(i, len(case["lines"]) - 1)].split()[0], "what": o}]
    if not out or not out[-1].startswith("save="):
        return []
    prog = unjson(case["meta"]["prog"])
    ok, img = saved_bytes(out[-1])
    if not ok:
        return [{"signature": "save-failed", "what": "save() returned false for a writer-domain program"}]
    return [{"signature": "c03:" + k, "what": w} for k, w in check_c03(prog, img)][:3]


def nontrivial(case, out):
    return len(case["meta"]["prog"]["secs"]) >= 2 and bool(out) and out[-1].startswith("save=true")


def classify(case, out):
    p = case["meta"]["prog"]
    ks = [f"cls{p['cls']}-{p['enc']}", f"nsec{min(len(p['secs']), 8)}", f"nseg{len(p['segs'])}"]
    if any(g.get("nested") for g in p["segs"]): ks.append("nested")
    if any(g.get("explicit") and g["members"] for g in p["segs"]): ks.append("explicit-addr")
    if any(s["type"] == 8 for s in p["secs"]): ks.append("nobits")
    return ks
