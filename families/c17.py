"""C17 — a truncated file never yields wrong data.

Proof (Props/C17.lean; for EVERY byte string img shorter than 2^63 — well-formed or not — every
prefix length k, both stream kinds, eager and lazy, no address translation):
 * `read_prefix` / `isolatedRead_prefix`: a complete read on the prefix delivers the bytes of the
   complete image (`slice_take`);
 * `secLoad_prefix(_hdr)` / `segLoad_prefix`: a section loaded from the prefix has the zeroed header
   (short read; after the F8 fix) or exactly the header fields of the image's table slot; data is
   absent or exactly the image's bytes of that range, which lies inside the prefix;
 * `exposes_only_file_bytes(_requests)`: after the load and after any interleaving of lazy data
   requests / frees, every resident section/segment buffer shows only bytes of the file;
 * `prefix_sound` (+ `_section`, `_segment`): the composition over the loader's loops as a two-run
   simulation — if the load of the prefix returns true, the load of the complete image returns true
   with the identical ELF header, identical segments (8 fields, data, member lists; success with
   e_phnum>0 implies the prefix stream never failed, hence no zeroed section), and section by section
   the header is all-zero or identical, the data pointer null or the same bytes, and (for equal name
   offsets) the section name empty or the same string;
 * `prefix_load_safe`: memory safety is C01 instantiated.
The NAME of a *zeroed* section (name offset 0: the string at offset 0 of the name table) is covered by
`prefix_sound_zero_name` (Props/C17.lean: `namesPure_zero_names` carries the hypothesis through the name
resolution step for the `SecRel.zero` case; `prefix_sound_core` threads it through the phases): if the
section-name table of the COMPLETE load starts with a NUL byte (`NameTableNulFirst rf`, decidable; the
single place where well-formedness of the image enters) every zeroed section of the prefix run has the
empty name.  `Compose.prefix_sound_names` (Props/Compose.lean) states it on the image: for a
C02-well-formed image whose section-name string table starts with NUL (`NameTableNul img`, decidable,
specification vocabulary — the gABI's "index zero holds a null character") every section of every
successfully loaded prefix has the empty name or the name the complete file gives it.  Non-vacuity:
`img272` (section header table last; prefix 250 has a zeroed section next to the resident name table).
Table read-outs on a prefix (Props/ComposeTables.lean §3, composing `prefix_sound_section` with C02∘C08/C09):
`ComposeTables.prefixLoaded_of_load`: a prefix of a C02-well-formed image that loads is in the state
`PrefixLoaded img k` (every section: the zeroed header without data, or the specification's ten fields of the
complete image, data-less if its type occupies no file space; loader invariants for the prefix stream);
`prefix_secResident`: `sections[i]->get_data()` on it keeps that state and hands out a section with NO data or with
exactly the bytes the complete file assigns to section i; `prefix_strings_sound`: every string lookup (any section,
any 32-bit index) is null or `Spec.strAt (secFileBytes img i) k` — what the complete file's load reports
(`strings_reports_spec`); `prefix_symbols_sound`: for a symbol table with the class's entry size every
get_symbol(k) is refused with the out-parameters untouched, or has the complete file's return value and attributes
and the complete file's name or the empty name (linked string table not in the prefix).
The other accessor classes (Props/ComposeTables2.lean §5, Lemmas/LoadedTables2.lean): state `PrefixLoadedC img k` =
`PrefixLoaded` + "every section carries the image's class" (`LoadedTables.load_secs_cls`: holds for the object `load`
leaves on ANY input; `prefixLoadedC_of_load`); `prefix_secResident_c` / `pready_inv`: the section handed out has NO
data, or has the specification's header fields, C07's invariant and content = the bytes the COMPLETE file assigns to
it.  For every entry index (all of the index type), through the code as it is after the C18 fixes (`TQ.runQuery` /
`Inspect.inspect`):
  prefix_reloc_sound    [SHT_REL/SHT_RELA, sizeof(Rel/Rela) <= sh_entsize] get_entry(k) = false, or the record
                        `specReloc img i k` the complete file's load reports (reloc_reports_spec)
  prefix_array_sound    [sh_size % w = 0] get_entry(k) = false, or Spec.tableEntry of the complete file's bytes
  prefix_versym_sound   [even size < 2^33, file order = host order (F4)] the same for half-words
  prefix_notes_sound    [complete file's bytes = Spec.encodeNotes ns, size <= 2^32-3] get_notes_num() = 0 and every
                        get_note refused, or get_notes_num() = |ns| and get_note(k) = the k-th note for every k
  prefix_dynamic_sound  [sh_entsize = sizeof(Dyn)] exactly one of: count 0 and every get_entry refused (zeroed header,
                        or no data and less than one record) | count 1, get_entry(0) = true with tag = DT_NULL,
                        value = 0, str = "" and every other index refused (the section's data is not in the prefix:
                        the ONE all-zero record `generic_get_entry_dyn` fabricates - `DynPrefix.getEntry_nodata` states
                        the model's behaviour on a data-less section exactly) | the complete file's count and, per
                        entry, the complete file's answer Spec.dynGet (..) (linkedTable img i) k or - when the linked
                        string table's data is not in the prefix - Spec.dynGet (..) none k (string-valued tags come
                        back false with the complete file's tag and value; `DynPrefix.getEntry_str`: a data-less
                        linked section answers like none).  Non-vacuity computed on prefixes that DO load
                        (`exDynView`, image `exImg4`): 250 bytes -> count 1, entry 0 = (DT_NULL, 0, ""), entry 1 refused;
                        266 bytes -> count 3, DT_NEEDED false with tag/value intact; 269 bytes -> the file.
  prefix_modinfo_sound  (Props/ComposeTables3.lean) [complete file's section bytes = Spec.encodeModinfo as, `AttrOk`]
                        the modinfo accessor on a prefix that loads holds NO attribute (data not in the prefix) or
                        exactly the complete file's list `as`; get_attribute(k) / get_attribute(field) answer from that
                        list for every k / name.  Non-vacuity on `exImg7` (section data behind the header table):
                        244 bytes -> loads, 0 attributes; 248 bytes -> loads, the 2 attributes.
Props/ComposeTables4.lean (third round; `PrefixLoadedS` = `PrefixLoadedC` + the segment side: count, p_type, p_offset,
p_filesz of the complete image; `prefixLoadedS_of_load`, `prefix_segResident` = the segment analogue of prefix_secResident_c:
a segment's data on the prefix is absent or exactly the complete file's range, which then lies inside the prefix):
  prefix_segment_notes_sound  [segment j not PT_NULL, its file range = Spec.encodeNotes ns, p_filesz <= 2^32-3] the PT_NOTE
                        segment accessor on a prefix that loads reports count 0 / every index refused, or exactly the
                        complete file's notes (count, and type/name/descriptor at EVERY 32-bit index).
                        `prefix_segment_notes_sound_range`: the same for any segment type with the reference stated
                        on `slice img p_offset p_filesz`.
  prefix_byvalue_sound  [sh_entsize = sizeof(Sym)] get_symbol(value, ...) on a prefix, through whatever hash section
                        the prefix shows: (false, "", {}) or found/attributes of the complete file's answer, the name
                        empty or the complete file's.
  prefix_verneed_sound / prefix_verdef_sound  [no hypothesis beyond i < e_shnum] the guarded version walkers on a prefix:
                        refusal, or the complete file's answer (`specNeed` / `specDef`); refusal when the linked string
                        table's data is not in the prefix.
  prefix_byname_sound_partial  [ValidNames, image < 4 GiB] get_symbol(name, ...) on a prefix always returns; when the
                        symbol data and the linked string data are both in the prefix the answer is the complete file's
                        (`ByNameSpec`).  PARTIAL: in the two data-less cases nothing is proved about the answer.
Partial (what is NOT a theorem, covered by correspondence + oracle only): the by-name answer when the symbol table's or
its string table's data is not in the prefix; a PT_NULL segment with p_filesz != 0 on a prefix; resolved relocation
read-outs on a prefix.
Correspondence + oracle: every prefix (quick: a stratified sample plus all lengths around table
and data boundaries; thorough: every length) of encoder-built images and small examples, eager and
lazy; the oracle compares the prefix's observation with the complete file's observation, field by
field: absent/zero/empty or identical.
"""
from families.loadcommon import *

PROPERTY = "C17"
FAMILY = "load"
LEAN_MODULE = "ElfioVerif.Props.C17"
THEOREMS = ["ElfioVerif.C17.read_prefix", "ElfioVerif.C17.isolatedRead_prefix",
            "ElfioVerif.C17.secLoad_prefix_hdr", "ElfioVerif.C17.secLoad_prefix", "ElfioVerif.C17.segLoad_prefix",
            "ElfioVerif.C17.exposes_only_file_bytes", "ElfioVerif.C17.exposes_only_file_bytes_requests",
            "ElfioVerif.C17.prefix_load_safe",
            "ElfioVerif.C17.secLoad_sim", "ElfioVerif.C17.segLoad_sim", "ElfioVerif.C17.loadSectionsLoop_sim",
            "ElfioVerif.C17.namesPure_sim", "ElfioVerif.C17.namesPure_names", "ElfioVerif.C17.loadSegmentsLoop_sim",
            "ElfioVerif.C17.prefix_sound", "ElfioVerif.C17.prefix_sound_section",
            "ElfioVerif.C17.prefix_sound_segment",
            "ElfioVerif.C17.namesPure_zero_names",
            "ElfioVerif.C17.prefix_sound_core",
            "ElfioVerif.C17.prefix_sound_zero_name",
            "ElfioVerif.Compose.nameTableNulFirst_of_image",
            "ElfioVerif.Compose.prefix_sound_names",
            "ElfioVerif.ComposeTables.prefixLoaded_of_load", "ElfioVerif.ComposeTables.prefix_secResident",
            "ElfioVerif.ComposeTables.prefix_strings_sound", "ElfioVerif.ComposeTables.prefix_symbols_sound",
            "ElfioVerif.LoadedTables.load_secs_cls", "ElfioVerif.LoadedTables.DynPrefix.getEntry_nodata",
            "ElfioVerif.LoadedTables.DynPrefix.getEntry_str",
            "ElfioVerif.ComposeTables.prefixLoadedC_of_load", "ElfioVerif.ComposeTables.prefix_secResident_c",
            "ElfioVerif.ComposeTables.pready_inv", "ElfioVerif.ComposeTables.dyn_acc_prefix",
            "ElfioVerif.ComposeTables.prefix_reloc_sound", "ElfioVerif.ComposeTables.prefix_dynamic_sound",
            "ElfioVerif.ComposeTables.prefix_modinfo_sound",
            "ElfioVerif.ComposeTables.prefix_notes_sound", "ElfioVerif.ComposeTables.prefix_array_sound",
            "ElfioVerif.ComposeTables.prefix_versym_sound",
            "ElfioVerif.ComposeTables.prefixLoadedS_of_load", "ElfioVerif.ComposeTables.prefix_segResident",
            "ElfioVerif.ComposeTables.prefix_segment_notes_sound",
            "ElfioVerif.ComposeTables.symTabFor_prefix", "ElfioVerif.ComposeTables.prefix_byvalue_sound",
            "ElfioVerif.ComposeTables.symTabFor_prefix_ok", "ElfioVerif.ComposeTables.prefix_byname_sound_partial",
            "ElfioVerif.ComposeTables.prefix_verneed_sound", "ElfioVerif.ComposeTables.prefix_verdef_sound",
            "ElfioVerif.ComposeTables.prefix_segment_notes_sound_range"]
EXTRA_IMPORTS = ["ElfioVerif.Props.Compose", "ElfioVerif.Props.ComposeTables", "ElfioVerif.Props.ComposeTables2",
                 "ElfioVerif.Props.ComposeTables3", "ElfioVerif.Props.ComposeTables4"]
SITES = ["conv", "load_s", "sec32_load", "sec64_load", "seg32_load", "seg64_load", "seg32_range", "seg64_range"]
RULE = ("(image, k): object 0 loads the complete well-formed image, object 1 its prefix of length k, both "
        "observed identically; images from tools/elfspec.py in 4 configurations and small bundled examples; "
        "quick: k in a boundary-biased sample (every table/record/data boundary +-1, plus random), thorough: "
        "every k for images <= 2 KiB and a dense sample otherwise; x {eager,lazy}. non-trivial = the prefix "
        "loads (returns true); distinct by md5")
ASSUMPTIONS = ["istringstream/ifstream semantics (Model/IStream.lean)", "image shorter than 2^63 bytes (theorem hypothesis)", "no address translation"]
TRUSTED = []
KEEP_FIRST = 2


def boundaries(img):
    d = elfspec.decode(img)
    bs = {0, 16, len(img)}
    if d:
        eh = d["ehdr"]; cls = d["cls"]
        bs |= {elfspec.EHSIZE[cls], eh["e_shoff"], eh["e_phoff"]}
        for i in range(eh["e_shnum"] + 1):
            bs.add(eh["e_shoff"] + i * eh["e_shentsize"]); bs.add(eh["e_shoff"] + i * eh["e_shentsize"] + elfspec.SHSIZE[cls])
        for i in range(eh["e_phnum"] + 1):
            bs.add(eh["e_phoff"] + i * eh["e_phentsize"])
            # cuts inside a program header record (after p_filesz: a half-read segment header)
            for inside in (21, 25, 29, 41, 45, 53):
                bs.add(eh["e_phoff"] + i * eh["e_phentsize"] + inside)
        for s in d["sections"]:
            bs |= {s["sh_offset"], s["sh_offset"] + s["sh_size"]}
    out = set()
    for b in bs:
        for dlt in (-1, 0, 1, 9):
            if 0 <= b + dlt <= len(img): out.add(b + dlt)
    return sorted(out)


def mk(cid, img, k, lazy):
    obs = observe_lines(img, max_sec=24, max_seg=8)
    lines = ["obj 0", f"load {hx(img)} lazy={lazy} kind=str"] + obs + ["obj 1", f"load {hx(img[:k])} lazy={lazy} kind=str"] + obs
    return {"id": cid, "lines": lines, "meta": {"nobs": len(obs), "k": k, "len": len(img)}}


def gen_cases(rng, tier):
    imgs = []
    n = 6 if tier == "quick" else 24
    for i in range(n):
        cls, enc = CFGS[i % 4]
        imgs.append((f"g{i}", elfspec.encode(elfspec.random_model(rng, cls, enc, max_data=40))))
    for i in range(4 if tier == "quick" else 16):
        cls, enc = CFGS[i % 4]
        imgs.append((f"t{i}", elfspec.encode(elfspec.random_model(rng, cls, enc, nseg=rng.choice([1, 2, 3]), max_data=40, pht_last=True))))
    for f, b in examples(3000 if tier == "quick" else 12000):
        if elfspec.wellformed(b):
            imgs.append((f, b))
    for name, img in imgs:
        if tier == "thorough" and len(img) <= 2048:
            ks = list(range(len(img) + 1))
        else:
            ks = boundaries(img)
            extra = 20 if tier == "quick" else 200
            ks = sorted(set(ks + [rng.randrange(0, len(img) + 1) for _ in range(extra)]))
            if tier == "quick" and len(ks) > 70:
                ks = sorted(rng.sample(ks, 70))
        for k in ks:
            yield mk(f"{name}-{k}", img, k, rng.choice([0, 1]))


ZERO_OK = {"type", "flags", "addr", "off", "size", "link", "info", "align", "entsize", "nameoff"}


def oracle(case, out):
    v = []
    for i, o in enumerate(out):
        if o.startswith("FAULT"):
            return [{"signature": "fault:" + case["lines"][min(i, len(case["lines"]) - 1)].split()[0], "what": o}]
    n = case["meta"]["nobs"]
    if len(out) < 2 * n + 4:
        return v
    full = out[2:2 + n]; r1 = out[3 + n]; pre = out[4 + n:4 + 2 * n]
    if not r1.startswith("load=true"):
        return v                       # failing is always allowed
    k = case["meta"]["k"]
    for ln, a, b in zip(case["lines"][2:2 + n], full, pre):
        fa, fb = kvline(a), kvline(b)
        kind = ln.split()[0]
        if kind == "hdr":
            for key in fa:
                if fa[key] != fb.get(key) and not (key in ("nsec", "nseg")):
                    v.append({"signature": "hdr-field:" + key, "what": f"prefix {k}: header {key}={fb.get(key)} vs {fa[key]}"})
            if int(fb.get("nsec", 0)) > int(fa.get("nsec", 0)) or int(fb.get("nseg", 0)) > int(fa.get("nseg", 0)):
                v.append({"signature": "hdr-count", "what": f"prefix {k}: more entries than the full file"})
        elif kind == "sec":
            if b == "null" or a == "null":
                if b != "null" and a == "null":
                    v.append({"signature": "extra-section", "what": f"prefix {k}: `{ln}` exists only in the prefix"})
                continue
            allzero = all(fb.get(x) == "0" for x in ZERO_OK)
            if not allzero:
                for key in ZERO_OK:
                    if fb.get(key) != fa.get(key):
                        v.append({"signature": "sec-field:" + key, "what": f"prefix {k}: `{ln}` {key}={fb.get(key)} vs {fa.get(key)} (header not all-zero)"}); break
            if fb.get("name") not in ("-", fa.get("name")):
                v.append({"signature": "sec-name", "what": f"prefix {k}: `{ln}` name {fb.get('name')} vs {fa.get('name')}"})
            if fb.get("data") not in ("null", "-", fa.get("data")):
                v.append({"signature": "sec-data", "what": f"prefix {k}: `{ln}` exposes data {fb.get('data')[:40]} vs {fa.get('data')[:40]}"})
        elif kind == "seg":
            if b == "null":
                continue
            if a == "null":
                v.append({"signature": "extra-segment", "what": f"prefix {k}: `{ln}` exists only in the prefix"}); continue
            for key in fa:
                if key == "data":
                    if fb.get("data") not in ("null", fa["data"]):
                        v.append({"signature": "seg-data", "what": f"prefix {k}: `{ln}` data differs"})
                elif key == "members":
                    pass    # membership is recomputed from (possibly zeroed) section headers
                elif fb.get(key) != fa[key]:
                    v.append({"signature": "seg-field:" + key, "what": f"prefix {k}: `{ln}` {key}={fb.get(key)} vs {fa[key]}"}); break
        if v:
            break
    return v


def nontrivial(case, out):
    n = case["meta"]["nobs"]
    return len(out) > 3 + n and out[3 + n].startswith("load=true") and case["meta"]["k"] < case["meta"]["len"]


def classify(case, out):
    n = case["meta"]["nobs"]
    ok = len(out) > 3 + n and out[3 + n].startswith("load=true")
    return ["prefix-loads" if ok else "prefix-rejected", "lazy" if "lazy=1" in case["lines"][1] else "eager"]
