"""C20 — validate() accepts what the writer produces and reports real conflicts.

Proof (Props/C20.lean, helper lemmas Lemmas/ValidateL.lean); the overlap condition, the
find_prog_section match and the address comparison are the generated expressions:
 * validate_overlap (+ validate_overlap_only_if): for all objects and all i < j: both sections non-NOBITS,
   sizes > 0, offsets > 0, file ranges intersect as naturals (no wrap: off+size < 2^64) => overlap(i,j) is
   reported (interval lemma + index bookkeeping of the nested loops); and nothing else is.
 * validate_skew (+ only_if): PT_LOAD with filesz > 0 whose vaddr differs from the address the program
   section found at its offset assigns to that offset => conflict(h) is reported.
 * validate_overlap_witness_prefix: the pre-fix condition ((type & SHT_NOBITS) == 0) missed two SHT_REL
   sections at one offset (F10, fixed by deacba8).
 * validate_silent: no complaint on any object satisfying `LayoutOk` (Lemmas/ValidateL.lean);
   validate_silent_save: `LayoutOk` holds for the object left by a successful save of a flat
   writer-domain object (C04.save_layoutOk: any number of sections/segments; hypotheses: no wrap, < 2^16
   sections, section 0 null / NULL-typed sections empty, distinct segment indices, `layoutDomB`);
   validate_silent_reloaded: validate reads only type/size/offset/address of sections and
   type/filesz/offset/vaddr of segments (validate_congr), so the reloaded object is silent too PROVIDED
   the loader reports those fields as saved.  That hypothesis is discharged in Props/Compose.lean:
   Compose.validate_silent_reloaded_unconditional (any selection `sel`; `C03.LayoutOk` and `SavedSane` as
   hypotheses) and Compose.validate_silent_reloaded_flat (flat writer-domain objects, hypotheses on the
   INPUT object only — `FlatDomain` — plus "no address/offset range of the saved object reaches 2^64"):
   save, then the model's `load` of the saved bytes (eager or lazy, string- or file-backed stream, into
   any object without address translation) succeeds and `validate` of the loaded object returns no
   complaint (composition `C02.load_eq_spec` ∘ `C03.save_decodes`, see families/c02.py).  Nested segments:
   Compose.validate_silent_reloaded_nested_unconditional (Props/Compose2.lean) - objects whose segments are flat
   (`selE`) or nested (`selN`, `layoutNestedB`), hypotheses on the input object (`NestedDomain`) plus `NoWrap64`
   of the saved object and the hypothesis of validate_silent_save_nested about nested PT_LOADs: validate is silent
   on the saved object and on the object `load` yields from the saved bytes (the former hypothesis "the loader
   reports those fields as saved" is discharged by Compose.reload_reports_saved_nested: a nested segment's file
   range ends at the end of one of its members, hence inside the file).  Non-vacuity: exNestedM (exFlatM plus a
   PT_LOAD nested in the first one) meets every hypothesis (exNested_ok).
   Compose.validate_silent_reloaded_flat_input: validate_silent_reloaded_flat with `NoWrap64` of the saved object
   replaced by the input-side `noWrap64InB o hd` (Compose.noWrap64_of_input) - every hypothesis on the input object.
   validate_silent_save already covers
   objects with nested segments whose nested segments are not PT_LOAD with filesz > 0 (validate ignores
   them; they need not be selected).  validate_silent_save_nested / validate_silent_reloaded_nested
   (C04.save_layoutOk_nested) add the remaining case: a PT_LOAD with filesz > 0 that is itself nested
   (`layoutSelB segNestedStartB selN`: at its turn its first member had been generated, so it starts at
   that member's offset), provided that first member occupies file space and carries the segment's
   p_vaddr (writer domain: "nested segments start at a member's address"); the section at the segment's
   first file byte is then that member (disjointness).  Non-vacuity: exNestedLoad (PT_LOAD nested in a
   PT_LOAD) meets the hypotheses, saves, and validate is silent.  Not covered: a nested PT_LOAD whose
   first member is empty or NOBITS.
Correspondence: family load (`validate` op).  Oracle: (a) no complaint after save of a writer-domain
program and after reload; (b) after forcing section j onto section i's offset in the saved bytes
(independent byte patch) and reloading: >= 1 overlap complaint whenever both are non-empty and occupy
file space; (c) after skewing a PT_LOAD's p_vaddr by 1..4096: that segment is reported whenever a
PROGBITS section contains its file offset.
"""
from families.writercommon import *
from families import c03 as _c03

PROPERTY = "C20"
FAMILY = "load"
LEAN_MODULE = "ElfioVerif.Props.C20"
THEOREMS = ["ElfioVerif.C20.validate_overlap", "ElfioVerif.C20.validate_overlap_only_if",
            "ElfioVerif.C20.validate_skew", "ElfioVerif.C20.validate_skew_only_if",
            "ElfioVerif.C20.validate_overlap_witness_prefix", "ElfioVerif.C20.validate_silent",
            "ElfioVerif.C20.validate_silent_save", "ElfioVerif.C20.validate_silent_reloaded",
            "ElfioVerif.C20.validate_silent_save_nested", "ElfioVerif.C20.validate_silent_reloaded_nested",
            "ElfioVerif.Compose.validate_silent_reloaded_unconditional",
            "ElfioVerif.Compose.validate_silent_reloaded_flat",
            "ElfioVerif.Compose.reload_reports_saved_nested",
            "ElfioVerif.Compose.validate_silent_reloaded_nested_unconditional",
            "ElfioVerif.Compose.exNested_ok",
            "ElfioVerif.Compose.validate_silent_reloaded_flat_input"]
EXTRA_IMPORTS = ["ElfioVerif.Props.Compose", "ElfioVerif.Props.Compose2"]
SITES = ["validate", "find_prog", "is_offset_in_section", "get_virtual_addr"]
RULE = ("writer-domain programs x 4 configurations: save, validate, reload, validate (silence expected); then for "
        "sampled (quick) / all (thorough) ordered pairs of sections: force an overlap by rewriting one sh_offset in "
        "the saved bytes, reload, validate (complaint expected when both are non-empty file-occupying sections); for "
        "every PT_LOAD: skew p_vaddr by d in {1, 7, 4096, random}, reload, validate. non-trivial = a complaint was "
        "expected; distinct by md5")
ASSUMPTIONS = []
TRUSTED = ["tools/elfspec.py decoder (to decide which pairs must be reported)"]
KEEP_FIRST = 1


def gen_cases(rng, tier):
    n = 60 if tier == "quick" else 400
    for i in range(n):
        cls, enc = CFGS[i % 4]
        p = gen_program(rng, cls, enc)
        if f13_trigger(p):
            strip_f13(p)
        base = to_lines(p)
        yield {"id": f"s{i}", "lines": base + ["save", "validate", "reload lazy=0", "validate"],
               "meta": {"prog": _c03.jsonable(p), "kind": "silent"}}
        ns = len(p["secs"]) + 2
        pairs = [(a, b) for a in range(1, ns) for b in range(1, ns) if a != b]
        if tier == "quick":
            pairs = rng.sample(pairs, min(len(pairs), 4))
        def usize(k):
            return 0 if k < 2 else p["secs"][k - 2]["size"]
        for a, b in pairs:
            # placements: same start; strictly inside (start+1, both ends free) when it fits; tail overlap
            deltas = [0]
            if usize(a) >= usize(b) + 2 and usize(b) > 0:
                deltas.append(1)
            if usize(a) >= 2:
                deltas.append(usize(a) - 1)
            for dl in (deltas if tier == "thorough" else [rng.choice(deltas)] + ([1] if 1 in deltas and rng.random() < 0.7 else [])):
                yield {"id": f"o{i}-{a}-{b}-{dl}", "lines": base + ["save", f"forceoverlap {a} {b} {dl}", "reload lazy=0", "validate"],
                       "meta": {"prog": _c03.jsonable(p), "kind": "overlap", "i": a, "j": b, "delta": dl}}
        for j, g in enumerate(p["segs"]):
            if g["type"] == 1:
                for d in ([rng.choice([1, 7, 4096, rng.randint(1, 4096)])] if tier == "quick" else [1, 7, 4096, rng.randint(1, 4096)]):
                    yield {"id": f"k{i}-{j}-{d}", "lines": base + ["save", f"skew {j} {d}", "reload lazy=0", "validate"],
                           "meta": {"prog": _c03.jsonable(p), "kind": "skew", "j": j, "d": d}}
    # a thread-local data section among a PT_LOAD's members, with / without a nested PT_TLS (gen_program never sets SHF_TLS):
    # validate() stays silent on the saved and on the reloaded object
    for i in range(8 if tier == "quick" else 80):
        cls, enc = CFGS[i % 4]
        p = gen_tls_program(rng, cls, enc, tls_seg=(i // 4) % 2 == 0)
        yield {"id": f"tls{i}", "lines": to_lines(p) + ["save", "validate", "reload lazy=0", "validate"],
               "meta": {"prog": _c03.jsonable(p), "kind": "silent"}}


def oracle(case, out):
    for i, o in enumerate(out):
        if o.startswith("FAULT"):
            return [{"signature": "fault:" + case["lines"][min(i, len(case["lines"]) - 1)].split()[0], "what": o}]
    vals = [kvline(o) for o in out if o.startswith("validate ")]
    saves = [o for o in out if o.startswith("save=")]
    if not saves or not vals:
        return []
    ok, img = saved_bytes(saves[0])
    if not ok:
        return []
    kind = case["meta"]["kind"]
    if kind == "silent":
        for k, f in enumerate(vals):
            if f.get("overlaps") != "0" or f.get("conflicts") != "-":
                return [{"signature": "not-silent:" + ("saved" if k == 0 else "reloaded"),
                         "what": f"validate() complains about a writer-produced file: {f}"}]
        return []
    d = elfspec.decode(img)
    if d is None:
        return []
    f = vals[-1]
    if kind == "overlap":
        a, b = d["sections"][case["meta"]["i"]], d["sections"][case["meta"]["j"]]
        dl = case["meta"].get("delta", 0)
        must = all(elfspec.occupies_file(s["sh_type"]) and s["sh_size"] > 0 for s in (a, b)) and a["sh_offset"] > 0 \
            and dl < a["sh_size"]
        if must and f.get("overlaps") == "0":
            return [{"signature": "overlap-missed", "what": f"sections {case['meta']['i']} (type {a['sh_type']}) and {case['meta']['j']} (type {b['sh_type']}) forced to overlap (offset of the first + {dl}): no complaint"}]
    if kind == "skew":
        g = d["segments"][case["meta"]["j"]]
        hit = any(s["sh_type"] == 1 and s["sh_size"] and s["sh_offset"] <= g["p_offset"] < s["sh_offset"] + s["sh_size"] for s in d["sections"])
        first = next((s for s in d["sections"] if s["sh_type"] == 1 and s["sh_offset"] <= g["p_offset"] < s["sh_offset"] + s["sh_size"]), None)
        if g["p_type"] == 1 and g["p_filesz"] > 0 and first is not None:
            expected_conflict = (first["sh_addr"] + g["p_offset"] - first["sh_offset"]) % (1 << 64) != (g["p_vaddr"] + case["meta"]["d"]) % (1 << (32 if d["cls"] == 32 else 64))
            listed = f.get("conflicts", "-").split(",")
            if expected_conflict and str(case["meta"]["j"]) not in listed:
                return [{"signature": "skew-missed", "what": f"PT_LOAD {case['meta']['j']} skewed by {case['meta']['d']}: not reported"}]
    return []


def nontrivial(case, out):
    return case["meta"]["kind"] != "silent" or True


def classify(case, out):
    return [case["meta"]["kind"]]
