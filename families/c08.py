"""C08 — string tables: every added string stays retrievable at its returned index; any lookup
returns null or a NUL-terminated string lying wholly inside the section.

PROVED (lean/ElfioVerif/Props/C08.lean, about Model/Strings.lean = `get_string`/`add_string` built
from the generated expressions of Gen/SitesC08.lean, over the C07 section model `SecBuf`):
  get_total      for EVERY 32-bit index and EVERY section satisfying C07's `SecBuf.Inv` (fresh, eagerly
                 or lazily loaded, after any edits) `get_string` completes without leaving the buffer
                 (the bounded memchr is a checked read), keeps the invariant and the content.
  get_total_wf   the same under the weaker `Fits` (allocation covers `size`, whatever the flags) - covers
                 sections whose data load failed (null data => null).
  get_refines    the result is `Spec.strAt content index`: a function of the content bytes only
                 (this is what makes "after save and reload" a consequence of data preservation, C03/C05).
  get_sound      a returned string lies inside [0,size) including its terminator, equals the bytes
                 there, contains no NUL; an unterminated tail gives null (get_unterminated_none),
                 index >= size gives null (get_beyond_none).
  add_refines    `add_string` = `Spec.addStr` on the content (seed NUL into an empty table, append
                 str+NUL, return the start), invariant kept; hypothesis: resulting size < 2^32.
  add_get / get_stable / add_all_refines / add_all_get   the returned index retrieves exactly the C
                 string (str up to its first NUL), immediately and after ANY sequence of later additions
                 (induction over the sequence, no length bound other than the final size < 2^32).
  index0_empty   after at least one addition to an empty table (and for every table starting with NUL)
                 index 0 is the empty string, and stays so.
  add_null_noop  a null `str` returns 0 and changes nothing.
Nothing is `_partial`; no finding: the property holds on the unchanged tree.
ONLY CORRESPONDENCE-CHECKED: that the model is the code (harness/c08.cpp over the real accessor vs
Driver/C08.lean, same transcripts), the `std::string` overload, the const accessor, and "after save and
reload" (the harness saves the whole file to a stringstream, reloads eagerly/lazily and re-queries; the
model reloads `content` — equality of the two is C03/C05's data preservation, observed here).
Hand-modelled (pointer-valued, untranslatable): the null tests of `string_section`/`str`/`data`,
`str = data + index`, `end != nullptr && end < str + remaining_size`; memchr/strlen are libc.
ASSUMED: see ASSUMPTIONS.  The oracle below is an independent Python reading of the property text and
judges the implementation's transcript only.
"""
import itertools

PROPERTY = "C08"
FAMILY = "c08"
LEAN_MODULE = "ElfioVerif.Props.C08"
THEOREMS = ["ElfioVerif.C08.get_total", "ElfioVerif.C08.get_total_wf", "ElfioVerif.C08.get_refines",
            "ElfioVerif.C08.get_sound", "ElfioVerif.C08.get_unterminated_none", "ElfioVerif.C08.get_beyond_none",
            "ElfioVerif.C08.add_refines", "ElfioVerif.C08.add_get", "ElfioVerif.C08.get_stable",
            "ElfioVerif.C08.add_all_refines", "ElfioVerif.C08.add_all_get", "ElfioVerif.C08.index0_empty", "ElfioVerif.C08.add_null_noop"]
SITES = ["str_get_", "str_add_", "sec32_insert", "sec64_insert"]
RULE = ("tables created empty / created by set_data with exact allocation / loaded eagerly or lazily from a "
        "saved file (well-formed, unterminated last string, no leading NUL, empty, all-NUL), x{ELF32,ELF64}x{LSB,MSB}; "
        "0-40 additions (empty, repeated, repeated through the pointer get_string returned - the source aliases the section's own "
        "buffer -, high bytes, embedded NUL, 200-600 byte strings, const char* / std::string / "
        "nullptr), every returned index re-queried immediately, after later additions and after save+reload (lazy and "
        "eager); lookups at 0, size-1, size, size+1, 2^32-1, 2^31, every index of small tables, random indices; "
        "tables > 64 KiB; NOBITS sections with a size and no data (null data => null); thorough adds all sequences of <=4 additions (quick: <=2) over a 5-string alphabet on 5 setups with every index queried "
        "after every addition. non-trivial = some lookup returned a non-empty string; distinct by md5 of the case text")
ASSUMPTIONS = ["new(nothrow) succeeds for the sizes generated (<= ~100 KiB)",
               "table size stays below 2^32 (Elf_Word positions) - explicit hypothesis of add_refines/add_get",
               "callers do not desynchronise size and data through the public section::set_size/set_type "
               "(SecBuf.Inv / Fits is what the loader and the editing API establish - C07, C01)",
               "no compression_interface is installed (inflate replaces data without updating data_size)"]
TRUSTED = ["SecBuf.loadedEager/loadedLazy abstract the loader (tied to the loader model by C01/C02's LoadedInv)",
           "libc memchr/strlen behave as ISO C says (sequential read, stop at first match)",
           "pointer-valued conditions of get_string/add_string are modelled by hand (see module docstring)"]
KEEP_FIRST = 1
SHT_NOBITS = 8
U32 = 4294967295


def hx(b):
    return b.hex() if b else "-"


def unhx(h):
    return b"" if h == "-" else bytes.fromhex(h)


def rand_string(rng, pool):
    k = rng.random()
    if k < 0.12: return b""
    if k < 0.27 and pool: return rng.choice(pool)                                  # repeated
    if k < 0.55: return bytes(rng.randrange(1, 128) for _ in range(rng.randint(1, 8)))
    if k < 0.72: return bytes(rng.randrange(128, 256) for _ in range(rng.randint(1, 12)))  # high bytes
    if k < 0.82:                                                                    # embedded NUL
        a = bytes(rng.randrange(1, 256) for _ in range(rng.randint(0, 5)))
        return a + b"\0" + bytes(rng.randrange(0, 256) for _ in range(rng.randint(0, 5)))
    if k < 0.93: return bytes(rng.randrange(1, 256) for _ in range(rng.randint(9, 64)))
    return bytes(rng.randrange(1, 256) for _ in range(rng.randint(200, 600)))      # long


def rand_table(rng):
    """bytes of a pre-existing table"""
    k = rng.random()
    if k < 0.08: return b""
    if k < 0.14: return b"\0" * rng.randint(1, 4)
    if k < 0.20: return bytes([rng.randrange(1, 256)])
    strs = [bytes(rng.randrange(1, 256) for _ in range(rng.randint(0, 6))) for _ in range(rng.randint(1, 6))]
    t = b"\0" if rng.random() < 0.8 else b""
    t += b"\0".join(strs) + b"\0"
    if rng.random() < 0.4:
        t += bytes(rng.randrange(1, 256) for _ in range(rng.randint(1, 7)))       # unterminated last string
    return t


def boundary_gets(rng, size, few=False):
    idx = [0, size, U32]
    if size > 0: idx.append(size - 1)
    idx.append(size + 1)
    if not few:
        idx += [2147483648, 4294967294, size + 2 ** 31 if size + 2 ** 31 <= U32 else 1]
        if size <= 24: idx += list(range(size + 2))
        else: idx += [rng.randrange(size) for _ in range(8)]
    rng.shuffle(idx)
    return [("cget " if rng.random() < 0.2 else "get ") + str(i) for i in idx]


def ref_add(content, s):
    cs = s.split(b"\0")[0]
    if len(content) == 0: content = b"\0"
    return content + cs + b"\0", len(content)


def gen_random(rng, i):
    cls = rng.choice([32, 64]); enc = rng.choice(["lsb", "msb"])
    k = rng.random(); lines = []; content = b""
    if k < 0.4:
        ty = 3 if rng.random() < 0.93 else rng.choice([1, 8])
        lines.append(f"new cls={cls} enc={enc} type={ty}")
        if rng.random() < 0.25 and ty != 8:
            content = rand_table(rng); lines.append(f"set {hx(content)}")
        if ty == 8 and rng.random() < 0.7:      # .bss-like: a size but never any data
            nb = rng.randint(1, 64); lines.append(f"setsize {nb}")
            lines += [f"get {j}" for j in (0, nb - 1, nb, rng.randrange(nb))]
    else:
        ty = 3 if rng.random() < 0.9 else 1
        content = rand_table(rng)
        lines.append(f"loadsec cls={cls} enc={enc} lazy={1 if k > 0.7 else 0} type={ty} data={hx(content)}")
    nadds = rng.choice([0, 0, 1, 2, 3, 5, 8, 13, 21, 40]) if rng.random() < 0.7 else rng.randint(0, 40)
    if rng.random() < 0.5: lines += boundary_gets(rng, len(content), few=True)
    pool = []; n = 0
    pool_of = {}; reals = []       # addition number -> string, for the additions that stored a string
    for _ in range(nadds):
        r = rng.random()
        if r < 0.03:
            lines.append("addnull")
        elif r < 0.17 and ty != 8 and reals:
            # repeat a string that is already in the table, passing the pointer get_string returned:
            # the source of the append lies in the section's own buffer (which the append may reallocate)
            k = rng.choice(reals); s = pool_of[k]; pool.append(s); pool_of[n] = s; reals.append(n)
            lines.append(f"addselfr {k}")
            content, _ = ref_add(content, s)
        else:
            s = rand_string(rng, pool); pool.append(s)
            lines.append(("adds " if r < 0.3 else "add ") + hx(s))
            if ty != 8: content, _ = ref_add(content, s)
            pool_of[n] = s; reals.append(n)
        n += 1
        if rng.random() < 0.6: lines.append(f"getr {n - 1}")
        if rng.random() < 0.3: lines.append(f"getr {rng.randrange(n)}")
        if rng.random() < 0.15: lines += boundary_gets(rng, len(content), few=True)
        if rng.random() < 0.04:
            lines.append(f"reload lazy={rng.randint(0, 1)}")
    lines += [f"getr {j}" for j in range(n)]
    lines += boundary_gets(rng, len(content))
    lines.append("dump")
    if rng.random() < 0.8:
        lines.append(f"reload lazy={rng.randint(0, 1)}")
        order = list(range(n)); rng.shuffle(order)
        lines += [f"getr {j}" for j in order]
        lines += boundary_gets(rng, len(content), few=rng.random() < 0.5)
        lines.append("dump")
        if rng.random() < 0.4:
            for _ in range(rng.randint(1, 4)):
                s = rand_string(rng, pool); lines.append("add " + hx(s)); n += 1
                if ty != 8: content, _ = ref_add(content, s)
            lines += [f"getr {j}" for j in range(n)]
            lines += boundary_gets(rng, len(content), few=True)
            lines.append("dump")
    return {"id": f"r{i}", "lines": lines, "meta": {}}


def gen_cases(rng, tier):
    n = 500 if tier == "quick" else 5000
    for i in range(n):
        yield gen_random(rng, i)
    # tables beyond 64 KiB (positions need all of Elf_Word) and NOBITS sections with a size
    for j in range(2 if tier == "quick" else 12):
        big = bytes(rng.randrange(1, 256) for _ in range(rng.randint(65536, 70000))) + (b"\0" if j % 2 == 0 else b"")
        lines = [f"loadsec cls={rng.choice([32, 64])} enc={rng.choice(['lsb', 'msb'])} lazy={j % 2} type=3 data={hx(big)}"]
        lines += [f"get {len(big) - 1}", f"get {len(big)}", "get 65535", "get 65536", "add 6162", "getr 0", "adds 63", "getr 1",
                  "getr 0", f"get {U32}", "reload lazy=1", "getr 0", "getr 1"]
        yield {"id": f"big{j}", "lines": lines, "meta": {}}
    for j in range(8 if tier == "quick" else 40):
        nb = rng.randint(1, 5000)
        lines = [f"new cls={rng.choice([32, 64])} enc=lsb type=8", f"setsize {nb}"]
        lines += [f"get {q}" for q in (0, 1, nb - 1, nb, nb + 1, U32)] + ["add 6162", "getr 0", "dump", f"reload lazy={j % 2}", "get 0", f"get {nb - 1}"]
        yield {"id": f"nobits{j}", "lines": lines, "meta": {}}
    # exhaustive small scope: every sequence of <= L additions, every index after every addition
    alpha = [b"", b"a", b"ab", b"a\0b", b"\xff\x80"]
    setups = [("new cls=64 enc=lsb type=3", b""), ("loadsec cls=32 enc=msb lazy=1 type=3 data=007800", b"\0x\0"),
              ("loadsec cls=64 enc=lsb lazy=0 type=3 data=007879", b"\0xy"),
              ("new cls=32 enc=lsb type=3\nset 6162", b"ab"), ("loadsec cls=64 enc=msb lazy=1 type=3 data=-", b"")]
    L = 2 if tier == "quick" else 4
    k = 0
    for st, d in setups:
        for ln in range(0, L + 1):
            for seq in itertools.product(alpha, repeat=ln):
                lines = st.split("\n"); content = d
                lines += [f"get {j}" for j in range(len(content) + 2)] + [f"get {U32}"]
                for m, s in enumerate(seq):
                    lines.append(("add " if (m + k) % 2 == 0 else "adds ") + hx(s))
                    content, _ = ref_add(content, s)
                    lines += [f"getr {j}" for j in range(m + 1)]
                    lines += [f"get {j}" for j in range(len(content) + 2)] + [f"get {U32}"]
                lines += ["dump", f"reload lazy={k % 2}"] + [f"getr {j}" for j in range(len(seq))]
                lines += [f"get {j}" for j in range(len(content) + 2)] + ["dump"]
                yield {"id": f"x{k}", "lines": lines, "meta": {"exhaustive": True}}
                k += 1


# ---------------------------------------------------------------- oracle (reads the property text)

def kvs(line):
    return dict(x.split("=", 1) for x in line.split() if "=" in x)


def oracle(case, out):
    v = []
    lines = case["lines"]
    first = lines[0].split(); setup = kvs(lines[0])
    ty = int(setup.get("type", "3"))
    nobits = ty == SHT_NOBITS
    created_empty = first[0] == "new"          # until a `set` says otherwise
    leading_nul = False                        # the table is known to start with NUL
    if first[0] == "loadsec":
        d = unhx(setup.get("data", "-")); leading_nul = d[:1] == b"\0"
    added = []          # per addition: (cstring or None for nullptr, returned index or None)
    size = None         # last size the implementation reported
    known = None        # section bytes, when a dump told us and nothing changed since
    real_adds = 0
    phase = "immediate"
    for i, ln in enumerate(lines):
        if i >= len(out):
            break
        o = out[i]; t = ln.split(); op = t[0]
        if o.startswith("FAULT"):
            v.append({"signature": "fault:" + op, "what": f"memory fault / abnormal end during `{ln[:60]}`: {o}"})
            return v
        if o.startswith("bad-op"):
            if "load-failed" in o or "save-failed" in o or "section-lost" in o:
                v.append({"signature": "reload-failed", "what": f"`{ln[:40]}`: {o}"}); return v
            continue
        f = kvs(o)
        if "size" in f: size = int(f["size"])
        if op == "set":
            d = unhx(t[1]); created_empty = len(d) == 0; leading_nul = d[:1] == b"\0"; known = None
        elif op in ("add", "adds"):
            cs = unhx(t[1]).split(b"\0")[0]
            added.append((cs, int(f["idx"]) if "idx" in f else None)); known = None; real_adds += 1
            phase = "immediate"
        elif op == "addselfr":
            k = int(t[1])
            cs = added[k][0] if k < len(added) else None
            added.append((cs, int(f["idx"]) if "idx" in f else None)); known = None
            if cs is not None: real_adds += 1
            phase = "immediate"
        elif op == "addnull":
            added.append((None, int(f["idx"]) if "idx" in f else None))
        elif op == "reload":
            phase = "reloaded"
        elif op == "dump":
            known = None if f.get("data") == "null" else unhx(f.get("data", "-"))
        elif op in ("get", "cget", "getr"):
            want = None
            if op == "getr":
                k = int(t[1])
                if k < len(added):
                    want = added[k][0]
                    ph = phase if (phase == "reloaded" or k == len(added) - 1) else "later"
                idx = added[k][1] if k < len(added) else None
            else:
                idx = int(t[1])
            # second sentence: null, or a NUL-terminated string wholly inside the section
            if o == "null":
                res = None
            elif o.startswith("str "):
                off = int(f["off"]); s = unhx(f["s"]); res = s
                if size is not None and off + len(s) + 1 > size:
                    v.append({"signature": "get-unsound", "what": f"`{ln}` -> {o[:60]} ends beyond size {size}"}); return v
                if b"\0" in s:
                    v.append({"signature": "get-unsound", "what": f"`{ln}` -> string with NUL inside"}); return v
                if known is not None and (known[off:off + len(s)] != s or known[off + len(s):off + len(s) + 1] != b"\0"):
                    v.append({"signature": "get-unsound", "what": f"`{ln}` -> {o[:60]} is not what the section holds"}); return v
                if idx is not None and off != idx:
                    v.append({"signature": "get-wrong-place", "what": f"`{ln}` (index {idx}) -> pointer to offset {off}"}); return v
            else:
                v.append({"signature": "get-unsound", "what": f"`{ln}` -> {o[:60]}: not null and not a terminated string inside the section"})
                return v
            # first sentence: a returned index retrieves exactly that string
            if want is not None and not nobits and res != want:
                v.append({"signature": "lost-string:" + ph,
                          "what": f"`{ln}` (index {idx}, {ph}) -> {o[:70]}, added string was {hx(want)[:60]}"})
                return v
            # index 0 of a non-empty table (built by additions / well-formed) is the empty string
            if idx == 0 and not nobits and ((created_empty and real_adds > 0) or (leading_nul and (size or 0) > 0)) \
               and res != b"":
                v.append({"signature": "index0", "what": f"`{ln}` on a non-empty table -> {o[:60]}, expected the empty string"})
                return v
    if len(out) > len(lines) and out[len(lines)].startswith("FAULT"):
        v.append({"signature": "fault:end", "what": out[len(lines)]})
    return v


def nontrivial(case, out):
    return any(o.startswith("str ") and not o.endswith("s=-") for o in out)


def classify(case, out):
    l0 = case["lines"][0]
    ks = [l0.split()[0] + ("-lazy" if "lazy=1" in l0 else "")]
    if len(case["lines"]) > 1 and case["lines"][1].startswith("set "): ks.append("set-exact-alloc")
    na = sum(1 for l in case["lines"] if l.startswith("add"))
    ks.append("adds:" + ("0" if na == 0 else "1-5" if na <= 5 else "6-20" if na <= 20 else "21-40+"))
    if any(l.startswith("reload") for l in case["lines"]): ks.append("reload")
    if any(o == "null" for o in out): ks.append("result:null")
    if any(o.startswith("str ") for o in out): ks.append("result:str")
    if any(l.endswith(str(U32)) for l in case["lines"]): ks.append("index:2^32-1")
    if any(o.startswith("FAULT") for o in out): ks.append("fault")
    return ks
