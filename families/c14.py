"""C14 — array, module-info and symbol-version tables round-trip.

Proved (Props/C14.lean, about Model/Array.lean, Model/Modinfo.lean, Model/Versym.lean whose guards,
offsets, truncations and conversions are the generated expressions of Gen/SitesC14.lean; sections range over
C07's invariant `SecBuf.Inv`: created+edited, loaded eagerly, loaded lazily):
  array_add / array_adds / array_get / array_roundtrip / array_bytes / array_get_reloaded : for both entry
      widths (4, 8; independent of the ELF class) and all 4 configurations, after any sequence of add_entry the
      content is the old content followed by `encodeInt enc w v` per value (declared byte order), get_entry(k) is
      the k-th value truncated to the entry width and false for every 64-bit index beyond the end, without
      leaving the buffer; the same for a section loaded with such content.
  modinfo_add / modinfo_adds / modinfo_parse / modinfo_roundtrip / modinfo_by_name / modinfo_parse_reloaded :
      add_attribute appends `field=value\0`; the constructor's parser applied to any such concatenation (fields
      without `=`/NUL, values without NUL) yields exactly the attributes in order, reading only inside the
      section; lookup by index = list indexing, by name = first match (Spec.lookupFirst).
  versym_add / versym_adds / versym_get / versym_roundtrip / versym_get_reloaded : get_entry(k) returns the
      k-th added index (library-symmetric; holds in all 4 configurations).
  versym_bytes_partial : stored in the declared order when declared order = host order (needConv = false).
  versym_order_witness / versym_bytes_declared_order_false / versym_read_witness : F4 - in a big-endian file on
      this host add_entry(0x0102) stores 02 01, and the well-formed big-endian table 00 05 is read as 0x0500.
      (open finding `versym-byte-order`, defect kept in the model)
  verneed_get_eq_spec / verdef_get_eq_spec (+ *_get_absent) : on every image where the GNU-ABI reference
      reader (Spec/Tables.lean: follow vn_next/vd_next k times, first auxiliary record, names in the linked
      string table) succeeds, get_entry reports exactly that, in either byte order, without leaving the
      section (after fixes/05-verneed-verdef-byteorder).
Only covered by correspondence + oracle (not proved): save/reload (the saved bytes are the section content
and the loader reads them back — C03/C05's business), the .dynamic lookup of DT_VERNEEDNUM/DT_VERDEFNUM
(C12), string-table lookup is a local copy of C08's model.
Assumed: see ASSUMPTIONS.
"""
import itertools, os, struct

PROPERTY = "C14"
FAMILY = "c14"
LEAN_MODULE = "ElfioVerif.Props.C14"
THEOREMS = ["ElfioVerif.C14." + t for t in (
    "array_add", "array_adds", "array_get", "array_roundtrip", "array_bytes", "array_get_reloaded",
    "modinfo_add", "modinfo_adds", "modinfo_parse", "spec_parse_encode", "modinfo_parse_eq_spec", "modinfo_roundtrip", "modinfo_by_name", "modinfo_parse_reloaded",
    "versym_add", "versym_adds", "versym_get", "versym_roundtrip", "versym_get_reloaded", "versym_bytes_partial",
    "versym_order_witness", "versym_bytes_declared_order_false", "versym_read_witness",
    "verneed_get_eq_spec", "verneed_get_absent", "verdef_get_eq_spec", "verdef_get_absent")]
SITES = ["arr32_", "arr64_", "mod_", "vs_", "vr_", "vd_", "sec32_insert", "sec64_insert", "sec32_set", "sec64_set"]
RULE = ("per kind x {ELF32,ELF64} x {LSB,MSB}: arrays (entry width 4 and 8) with 0-40 add_entry of edge/random 64-bit "
        "values, modinfo with 0-20 add_attribute (fields without '='/NUL incl. empty and duplicate names, values without "
        "NUL incl. '='), versym with 0-40 indices; interleaved get by index (incl. count, count+1, 2^32, 2^64-1) / by name, "
        "accessor re-creation, save+reload (eager and lazy) and further adds; raw section contents (leading/multiple NULs, "
        "records without '=', unterminated) for the parsers; verneed/verdef chains of 1-4 entries with 1-3 auxiliaries in "
        "two layouts built by an independent encoder, injected with set_data and re-read after reload; the version and "
        "array sections of the bundled example files (incl. the big-endian test_ppc). thorough: 10x and all add "
        "sequences of length <= 3 over a 3-value alphabet. non-trivial = some lookup returned an entry or an add changed "
        "the data; distinct by md5 of the case text")
ASSUMPTIONS = ["new(nothrow) succeeds for the sizes generated (<= a few KiB)",
               "section sizes stay below 2^32 (ELF32) / 2^61 (growth guard) - explicit hypotheses of the theorems",
               "host is little-endian (Gen.hostIsLittle, regenerated from the layout probe)",
               "save writes a section's content and load reads it back (C03/C05); here checked by correspondence only"]
TRUSTED = ["SecBuf.loadedEager/loadedLazy abstract the loader (tied to the loader model by C01/C02)",
           "DT_VERNEEDNUM / DT_VERDEFNUM are passed to the model as read by an independent parser (dynamic accessor = C12)",
           "strLookup is a local model of string_section_accessor::get_string (C08 proves it against the code)"]
KEEP_FIRST = 1

EX = os.path.join(os.environ.get("ELFIO_REPO", "/repo"), "tests", "elf_examples")
EX_STABLE = "/repo/tests/elf_examples"      # paths written into cases (the examples are not touched by fixes)


def hx(b):
    return bytes(b).hex() if b else "-"


def unhx(s):
    return b"" if s in ("-", "") else bytes.fromhex(s)


def E(enc):
    return "<" if enc == "lsb" else ">"


# ----------------------------------------------------------------------------- independent encoders

def enc_int(enc, w, v):
    return (v % (1 << (8 * w))).to_bytes(w, "little" if enc == "lsb" else "big")


def dec_int(enc, b):
    return int.from_bytes(b, "little" if enc == "lsb" else "big")


def build_strtab(names):
    tab = b"\0"; off = {}
    for n in names:
        if n not in off:
            off[n] = len(tab); tab += n + b"\0"
    return tab, off


def encode_verneed(enc, entries, layout, rng=None):
    """entries: [(version, file, [(hash, flags, other, name), ...])] -> (section bytes, string table)"""
    names = []
    for v, f, auxes in entries:
        names.append(f); names += [a[3] for a in auxes]
    tab, off = build_strtab(names)
    e = E(enc)
    n = len(entries)
    if layout == "canonical":
        pos = 0; ent_off = []; aux_off = []
        for v, f, auxes in entries:
            ent_off.append(pos); aux_off.append(pos + 16); pos += 16 + 16 * len(auxes)
        total = pos
    else:   # headers first (with gaps), auxiliary blocks afterwards in reverse order
        pos = 0; ent_off = []
        for i in range(n):
            ent_off.append(pos); pos += 16 + 4 * (rng.randint(0, 3) if rng else 1)
        aux_off = [0] * n
        for i in reversed(range(n)):
            aux_off[i] = pos; pos += 16 * len(entries[i][2]) + 4 * (rng.randint(0, 2) if rng else 0)
        total = pos
    buf = bytearray(b"\xee" * total)
    for i, (v, f, auxes) in enumerate(entries):
        nxt = (ent_off[i + 1] - ent_off[i]) if i + 1 < n else 0
        buf[ent_off[i]:ent_off[i] + 16] = struct.pack(e + "HHIII", v, len(auxes), off[f], aux_off[i] - ent_off[i], nxt)
        for j, (h, fl, ot, nm) in enumerate(auxes):
            p = aux_off[i] + 16 * j
            buf[p:p + 16] = struct.pack(e + "IHHII", h, fl, ot, off[nm], 16 if j + 1 < len(auxes) else 0)
    return bytes(buf), tab


def encode_verdef(enc, entries, layout, rng=None):
    """entries: [(flags, ndx, hash, [name, ...])]"""
    names = [nm for _, _, _, nms in entries for nm in nms]
    tab, off = build_strtab(names)
    e = E(enc); n = len(entries)
    if layout == "canonical":
        pos = 0; ent_off = []; aux_off = []
        for fl, nd, h, nms in entries:
            ent_off.append(pos); aux_off.append(pos + 20); pos += 20 + 8 * len(nms)
        total = pos
    else:
        pos = 0; ent_off = []
        for i in range(n):
            ent_off.append(pos); pos += 20 + 4 * (rng.randint(0, 3) if rng else 1)
        aux_off = [0] * n
        for i in reversed(range(n)):
            aux_off[i] = pos; pos += 8 * len(entries[i][3]) + 4 * (rng.randint(0, 2) if rng else 0)
        total = pos
    buf = bytearray(b"\xee" * total)
    for i, (fl, nd, h, nms) in enumerate(entries):
        nxt = (ent_off[i + 1] - ent_off[i]) if i + 1 < n else 0
        buf[ent_off[i]:ent_off[i] + 20] = struct.pack(e + "HHHHIII", 1, fl, nd, len(nms), h, aux_off[i] - ent_off[i], nxt)
        for j, nm in enumerate(nms):
            p = aux_off[i] + 8 * j
            buf[p:p + 8] = struct.pack(e + "II", off[nm], 8 if j + 1 < len(nms) else 0)
    return bytes(buf), tab


def encode_dynamic(cls, enc, pairs):
    fmt = E(enc) + ("iI" if cls == 32 else "qQ")
    return b"".join(struct.pack(fmt, t if t < (1 << (31 if cls == 32 else 63)) else t - (1 << (32 if cls == 32 else 64)), v)
                    for t, v in pairs)


DT_VERDEFNUM, DT_VERNEEDNUM = 0x6ffffffd, 0x6fffffff


# ----------------------------------------------------------------------------- independent decoders (GNU ABI)

def cstr(tab, idx):
    if idx >= len(tab): return None
    j = tab.find(b"\0", idx)
    return None if j < 0 else tab[idx:j]


def decode_need(enc, data, tab, k):
    e = E(enc); off = 0
    try:
        for _ in range(k):
            off += struct.unpack_from(e + "HHIII", data, off)[4]
        ver, cnt, fidx, aux, nxt = struct.unpack_from(e + "HHIII", data, off)
        h, fl, ot, nidx, _ = struct.unpack_from(e + "IHHII", data, off + aux)
    except struct.error:
        return None
    f = cstr(tab, fidx); nm = cstr(tab, nidx)
    if f is None or nm is None: return None
    return f"true ver={ver} file={hx(f)} hash={h} flags={fl} other={ot} name={hx(nm)}"


def decode_def(enc, data, tab, k):
    e = E(enc); off = 0
    try:
        for _ in range(k):
            off += struct.unpack_from(e + "HHHHIII", data, off)[6]
        ver, fl, nd, cnt, h, aux, nxt = struct.unpack_from(e + "HHHHIII", data, off)
        nidx, _ = struct.unpack_from(e + "II", data, off + aux)
    except struct.error:
        return None
    nm = cstr(tab, nidx)
    if nm is None: return None
    return f"true flags={fl} ndx={nd} hash={h} name={hx(nm)}"


def parse_modinfo(cur):
    """split on NUL (dropping empty pieces), then at the first '='; a piece without '=' -> None (no claim)"""
    out = []
    for piece in cur.split(b"\0"):
        if not piece: continue
        if b"=" in piece:
            f, v = piece.split(b"=", 1); out.append((f, v))
        else:
            out.append(None)
    return out


class Elf:
    """minimal independent ELF section reader for the bundled examples"""
    def __init__(self, path):
        d = self.d = open(path, "rb").read()
        self.cls = 32 if d[4] == 1 else 64
        self.enc = "lsb" if d[5] == 1 else "msb"
        e = E(self.enc)
        if self.cls == 32:
            shoff, = struct.unpack_from(e + "I", d, 32); shentsize, shnum, shstrndx = struct.unpack_from(e + "HHH", d, 46)
        else:
            shoff, = struct.unpack_from(e + "Q", d, 40); shentsize, shnum, shstrndx = struct.unpack_from(e + "HHH", d, 58)
        self.sh = []
        for i in range(shnum):
            o = shoff + i * shentsize
            if self.cls == 32:
                name, ty, fl, addr, off, size, link, info, al, es = struct.unpack_from(e + "10I", d, o)
            else:
                name, ty, fl, addr, off, size, link, info, al, es = struct.unpack_from(e + "IIQQQQIIQQ", d, o)
            self.sh.append(dict(name=name, type=ty, off=off, size=size, link=link, entsize=es))
        st = self.sh[shstrndx]
        tab = d[st["off"]:st["off"] + st["size"]]
        for s in self.sh:
            s["sname"] = cstr(tab, s["name"]).decode()

    def sec(self, name):
        for i, s in enumerate(self.sh):
            if s["sname"] == name: return s
        return None

    def data(self, s):
        return b"" if s["type"] == 8 else self.d[s["off"]:s["off"] + s["size"]]

    def dyn(self, tag):
        s = self.sec(".dynamic")
        if not s: return 0
        d = self.data(s); w = 8 if self.cls == 32 else 16
        for i in range(0, len(d) - w + 1, w):
            t, v = struct.unpack_from(E(self.enc) + ("iI" if self.cls == 32 else "qQ"), d, i)
            t %= 1 << (32 if self.cls == 32 else 64)
            if t == tag: return v
            if t == 0: break
        return 0


# ----------------------------------------------------------------------------- generators

EDGE64 = [0, 1, 0xff, 0x100, 0x0102, 0x01020304, 0xffffffff, 0x100000000, 0x0102030405060708,
          0x8000000000000000, 0xffffffffffffffff, 0xdeadbeef]
BAD_IDX = ["4294967296", "18446744073709551615", "4294967295"]
CFGS = [(c, e) for c in (32, 64) for e in ("lsb", "msb")]


def rv64(rng):
    k = rng.random()
    if k < 0.3: return rng.choice(EDGE64)
    if k < 0.6: return rng.getrandbits(64)
    if k < 0.8: return rng.getrandbits(32)
    return rng.getrandbits(16)


def rv16(rng):
    return rng.choice([0, 1, 2, 0x0102, 0x8001, 0xffff, 0x0101, 0x100]) if rng.random() < 0.4 else rng.getrandbits(16)


def rname(rng, lo=1, hi=10):
    return bytes(rng.choice(b"abcdefghijklmnopqrstuvwxyzABCXYZ_.0123456789") for _ in range(rng.randint(lo, hi)))


def rfield(rng):
    k = rng.random()
    if k < 0.08: return b""
    if k < 0.75: return rng.choice([b"license", b"author", b"alias", b"depends", b"vermagic", b"parm", b"a", b"name"])
    al = [c for c in range(1, 256) if c != 0x3d]
    return bytes(rng.choice(al) for _ in range(rng.randint(1, 9)))


def rvalue(rng):
    k = rng.random()
    if k < 0.1: return b""
    if k < 0.5: return rname(rng, 1, 14)
    if k < 0.7: return rname(rng, 1, 5) + b"=" + rname(rng, 0, 5)
    return bytes(rng.randint(1, 255) for _ in range(rng.randint(1, 24)))


def table_case(rng, kind, cls, enc, w, n, cid):
    first = f"{kind} cls={cls} enc={enc}" + (f" w={w}" if kind == "arr" else "")
    lines = [first]; cnt = 0
    rv = rv64 if kind == "arr" else rv16
    reloaded = False
    for i in range(n):
        lines.append(f"add {rv(rng):#x}"); cnt += 1
        r = rng.random()
        if r < 0.25:
            lines.append(f"get {rng.randint(0, cnt + 1)}")
        elif r < 0.30:
            lines.append("num")
        elif r < 0.34:
            lines.append("reacc")
        elif r < 0.38 and not reloaded:
            lines.append(f"reload lazy={rng.randint(0, 1)}"); reloaded = rng.random() < 0.7
    for i in range(cnt):
        if cnt <= 12 or rng.random() < 0.4: lines.append(f"get {i}")
    lines += [f"get {cnt}", f"get {cnt + 1}", f"get {rng.choice(BAD_IDX)}"]
    lazy = rng.randint(0, 1)
    lines.append(f"reload lazy={lazy}")
    idx = list(range(cnt)); rng.shuffle(idx)
    for i in idx[:14]: lines.append(f"get {i}")
    lines += [f"get {cnt}", "num"]
    if rng.random() < 0.5:
        lines.append(f"add {rv(rng):#x}"); lines.append(f"get {cnt}"); lines.append("reload lazy=0"); lines.append(f"get {cnt}")
    return {"id": cid, "lines": lines, "meta": {"kind": kind}}


def raw_table_case(rng, kind, cls, enc, w, cid):
    n = rng.randint(0, 3 * w + 3)
    raw = bytes(rng.getrandbits(8) for _ in range(n))
    lines = [f"{kind} cls={cls} enc={enc}" + (f" w={w}" if kind == "arr" else ""), f"setraw {hx(raw)}", "reacc"]
    lines += [f"get {i}" for i in range(n // w + 2)]
    lines += [f"add {rv16(rng):#x}", f"get {n // w}", f"reload lazy={rng.randint(0, 1)}"] + [f"get {i}" for i in range(n // w + 2)]
    return {"id": cid, "lines": lines, "meta": {"kind": kind, "raw": True}}


def mod_case(rng, cls, enc, n, cid):
    lines = [f"mod cls={cls} enc={enc}"]; fields = []
    reloaded = False
    for i in range(n):
        f, v = rfield(rng), rvalue(rng); fields.append(f)
        lines.append(f"add {hx(f)} {hx(v)}")
        r = rng.random()
        if r < 0.2: lines.append(f"get {rng.randint(0, len(fields))}")
        elif r < 0.4: lines.append(f"find {hx(rng.choice(fields))}")
        elif r < 0.46: lines.append("reacc")
        elif r < 0.50 and not reloaded:
            lines.append(f"reload lazy={rng.randint(0, 1)}"); reloaded = True
    lines += [f"get {i}" for i in range(n + 1)] + [f"get {rng.choice(BAD_IDX)}", "num"]
    lines += [f"find {hx(f)}" for f in sorted(set(fields))[:8]] + [f"find {hx(b'nosuchfield')}", "find -"]
    lines.append("reacc")
    lines += [f"get {i}" for i in range(n + 1)]
    lines.append(f"reload lazy={rng.randint(0, 1)}")
    lines += [f"get {i}" for i in range(n + 1)] + [f"find {hx(f)}" for f in sorted(set(fields))[:8]] + ["num"]
    if rng.random() < 0.5:
        f, v = rfield(rng), rvalue(rng)
        lines += [f"add {hx(f)} {hx(v)}", f"get {n}", f"find {hx(f)}", "reacc", f"get {n}"]
    return {"id": cid, "lines": lines, "meta": {"kind": "mod"}}


def raw_mod_case(rng, cls, enc, cid):
    pieces = []
    for _ in range(rng.randint(0, 5)):
        r = rng.random()
        if r < 0.25: pieces.append(b"\0" * rng.randint(1, 3))
        elif r < 0.4: pieces.append(rname(rng, 1, 6) + b"\0")                       # record without '='
        else: pieces.append(rfield(rng) + b"=" + rvalue(rng) + b"\0")
    raw = b"".join(pieces)
    if rng.random() < 0.35: raw += rname(rng, 1, 4) + b"=" + rname(rng, 1, 4)       # unterminated tail
    lines = [f"mod cls={cls} enc={enc}", f"setraw {hx(raw)}"]
    if rng.random() < 0.5: lines.append("reacc")                                     # may run off an unterminated buffer
    lines.append(f"reload lazy={rng.randint(0, 1)}")
    lines += [f"get {i}" for i in range(7)] + ["num"]
    return {"id": cid, "lines": lines, "meta": {"kind": "mod", "raw": True}}


def chain_case(rng, kind, cls, enc, cid):
    n = rng.randint(1, 4); layout = rng.choice(["canonical", "split"])
    if kind == "vn":
        ents = [(1, rname(rng, 3, 12), [(rng.getrandbits(32), rng.choice([0, 2]), rng.randint(2, 0xffff), rname(rng, 3, 12))
                                        for _ in range(rng.randint(1, 3))]) for _ in range(n)]
        data, tab = encode_verneed(enc, ents, layout, rng); tag = DT_VERNEEDNUM
    else:
        ents = [(rng.choice([0, 1, 2]), rng.randint(1, 0x7fff), rng.getrandbits(32), [rname(rng, 3, 12) for _ in range(rng.randint(1, 3))])
                for _ in range(n)]
        data, tab = encode_verdef(enc, ents, layout, rng); tag = DT_VERDEFNUM
    num = n if rng.random() < 0.85 else rng.randint(1, n)      # the dynamic section may announce fewer
    dyn = encode_dynamic(cls, enc, [(4, 0), (10, len(tab))][:rng.randint(0, 2)] + [(tag, num), (0, 0)])
    lines = [f"{kind} cls={cls} enc={enc} num={num} data={hx(data)} str={hx(tab)} dyn={hx(dyn)}", "num"]
    lines += [f"get {i}" for i in range(num + 1)] + [f"get {rng.choice(BAD_IDX[1:] + ['4294967295'])}"]
    lines.append(f"reload lazy={rng.randint(0, 1)}")
    lines += [f"get {i}" for i in reversed(range(num + 1))]
    return {"id": cid, "lines": lines, "meta": {"kind": kind, "layout": layout}}


FILES = [("libversion_d.so", [("vs", ".gnu.version", 0), ("vd", ".gnu.version_d", 0), ("vn", ".gnu.version_r", 0),
                              ("arr", ".init_array", 8), ("arr", ".fini_array", 8)]),
         ("main", [("vs", ".gnu.version", 0), ("vn", ".gnu.version_r", 0), ("arr", ".ctors", 8)]),
         ("hello_64", [("vs", ".gnu.version", 0), ("vn", ".gnu.version_r", 0), ("arr", ".dtors", 8)]),
         ("libfunc.so", [("vs", ".gnu.version", 0), ("vn", ".gnu.version_r", 0)]),
         ("test_ppc", [("vs", ".gnu.version", 0), ("vn", ".gnu.version_r", 0), ("arr", ".ctors", 4)]),
         ("hello_arm", [("arr", ".ctors", 4)]),
         ("zavl.ko", [("mod", ".modinfo", 0)])]


def file_cases():
    k = 0
    for fn, secs in FILES:
        p = os.path.join(EX, fn)
        if not os.path.exists(p): continue
        ef = Elf(p)
        for kind, sname, w in secs:
            s = ef.sec(sname)
            if s is None: continue
            d = ef.data(s)
            for lazy in (0, 1):
                first = f"file path={EX_STABLE}/{fn} kind={kind} sec={sname} cls={ef.cls} enc={ef.enc} lazy={lazy} data={hx(d)}"
                n = 0
                if kind == "arr":
                    first += f" w={w}"; n = len(d) // w
                elif kind == "vs":
                    n = len(d) // 2
                elif kind in ("vn", "vd"):
                    n = ef.dyn(DT_VERNEEDNUM if kind == "vn" else DT_VERDEFNUM)
                    first += f" num={n} str={hx(ef.data(ef.sh[s['link']]))}"
                else:
                    n = len([x for x in d.split(b"\0") if x])
                lines = [first, "num"] + [f"get {i}" for i in range(n + 1)]
                if kind == "mod":
                    lines += ["find 6c6963656e7365", "find 617574686f72", "find 76657273696f6e"]
                yield {"id": f"f{k}", "lines": lines, "meta": {"kind": kind, "file": fn}}
                k += 1


def gen_cases(rng, tier):
    mul = 1 if tier == "quick" else 10
    yield from file_cases()
    k = 0
    for cls, enc in CFGS:
        for w in (4, 8):
            for n in [0, 1, 2, 40] + [rng.randint(0, 40) for _ in range(14 * mul)]:
                yield table_case(rng, "arr", cls, enc, w, n, f"a{k}"); k += 1
            for _ in range(3 * mul):
                yield raw_table_case(rng, "arr", cls, enc, w, f"ar{k}"); k += 1
        for n in [0, 1, 2, 40] + [rng.randint(0, 40) for _ in range(20 * mul)]:
            yield table_case(rng, "vs", cls, enc, 2, n, f"v{k}"); k += 1
        for _ in range(3 * mul):
            yield raw_table_case(rng, "vs", cls, enc, 2, f"vr{k}"); k += 1
        for n in [0, 1, 2, 20] + [rng.randint(0, 20) for _ in range(22 * mul)]:
            yield mod_case(rng, cls, enc, n, f"m{k}"); k += 1
        for _ in range(8 * mul):
            yield raw_mod_case(rng, cls, enc, f"mr{k}"); k += 1
        for kind in ("vn", "vd"):
            for _ in range(16 * mul):
                yield chain_case(rng, kind, cls, enc, f"{kind}{k}"); k += 1
    # exhaustive small scope: all add sequences of length <= L over a small alphabet, read back before and after reload
    L = 2 if tier == "quick" else 3
    for cls, enc in CFGS:
        for kind, w, alpha in (("arr", 4, ["0x0", "0x01020304", "0xffffffff00000005"]),
                               ("arr", 8, ["0x0", "0x0102030405060708", "0xffffffffffffffff"]),
                               ("vs", 2, ["0x0", "0x0102", "0xffff"])):
            for ln in range(0, L + 1):
                for seq in itertools.product(alpha, repeat=ln):
                    lines = [f"{kind} cls={cls} enc={enc}" + (f" w={w}" if kind == "arr" else "")]
                    lines += [f"add {v}" for v in seq] + [f"get {i}" for i in range(ln + 1)] + ["reload lazy=1"]
                    lines += [f"get {i}" for i in range(ln + 1)]
                    yield {"id": f"x{k}", "lines": lines, "meta": {"kind": kind, "exhaustive": True}}; k += 1
        alpha = [("61", "62"), ("-", "3d"), ("61", "-")]
        for ln in range(0, L + 1):
            for seq in itertools.product(alpha, repeat=ln):
                lines = [f"mod cls={cls} enc={enc}"] + [f"add {f} {v}" for f, v in seq]
                lines += [f"get {i}" for i in range(ln + 1)] + ["find 61", "find -", "reacc"] + [f"get {i}" for i in range(ln + 1)]
                lines += ["reload lazy=0", "find 61", "find -"] + [f"get {i}" for i in range(ln + 1)]
                yield {"id": f"x{k}", "lines": lines, "meta": {"kind": "mod", "exhaustive": True}}; k += 1


# ----------------------------------------------------------------------------- oracle

def kvs(line):
    t = line.split()
    return t[0], dict(x.split("=", 1) for x in t[1:] if "=" in x)


def expected(case):
    """per line: (expected text or None = no claim, signature on mismatch)"""
    op0, kv = kvs(case["lines"][0])
    kind = kv.get("kind", op0) if op0 == "file" else op0
    enc = kv.get("enc", "lsb")
    exp = []
    if kind in ("arr", "vs"):
        w = int(kv.get("w", 4)) if kind == "arr" else 2
        cur = bytearray(unhx(kv.get("data", "-")) if op0 == "file" else b"")
        alt = bytearray(cur)       # versym only: the content a convertor-less accessor produces (F4's trigger class)
        aenc = "lsb" if kind == "vs" else enc
        sig = "array" if kind == "arr" else "versym"
        has = True
        exp.append((f"num={len(cur) // w}", sig + "-count"))
        cnt = len(cur) // w        # what the accessor believes (versym caches its count)
        for ln in case["lines"][1:]:
            t = ln.split()
            if t[0] == "add" and has:
                cur += enc_int(enc, w, int(t[1], 0)); alt += enc_int(aenc, w, int(t[1], 0))
                cnt = len(cur) // w if kind == "arr" else cnt + 1
                pre = "true " if kind == "vs" else ""
                exp.append((pre + f"num={cnt} data={hx(cur)}", sig + "-bytes", pre + f"num={cnt} data={hx(alt)}"))
            elif t[0] == "get" and has:
                i = int(t[1], 0) % (1 << (64 if kind == "arr" else 32))     # Elf_Xword / Elf_Word parameter
                if i < cnt and (i + 1) * w <= len(cur):
                    exp.append((f"true {dec_int(enc, cur[i * w:(i + 1) * w])}", sig + "-roundtrip",
                                f"true {dec_int(aenc, alt[i * w:(i + 1) * w])}"))
                elif i >= cnt:
                    exp.append(("false", sig + "-index"))
                else:
                    exp.append((None, ""))
            elif t[0] == "num" and has:
                exp.append((f"num={cnt}", sig + "-count"))
            elif t[0] == "reacc":
                has = True; cnt = len(cur) // w; exp.append((f"num={cnt}", sig + "-count"))
            elif t[0] == "setraw":
                cur = bytearray(unhx(t[1])); alt = bytearray(cur); has = False; exp.append((f"data={hx(cur)}", sig + "-raw"))
            elif t[0] == "reload":
                has = True; cnt = len(cur) // w
                exp.append((f"num={cnt} data={hx(cur)}", sig + "-reload", f"num={cnt} data={hx(alt)}"))
            else:
                exp.append((None, ""))
    elif kind == "mod":
        cur = bytearray(unhx(kv.get("data", "-")) if op0 == "file" else b"")
        attrs = parse_modinfo(bytes(cur)); has = True; safe = True
        exp.append((f"num={len(attrs)}", "modinfo-count"))
        for ln in case["lines"][1:]:
            t = ln.split()
            if not safe:
                exp.append((None, "out-of-domain")); continue
            if t[0] == "add" and has:
                f, v = unhx(t[1]), unhx(t[2])
                pos = len(cur) % (1 << 32)
                cur += f + b"=" + v + b"\0"; attrs.append((f, v))
                exp.append((f"pos={pos} num={len(attrs)} data={hx(cur)}", "modinfo-bytes"))
            elif t[0] == "get" and has:
                i = int(t[1], 0) % (1 << 32)                                # Elf_Word parameter
                if i >= len(attrs): exp.append(("false", "modinfo-index"))
                elif attrs[i] is None: exp.append((None, ""))
                else: exp.append((f"true {hx(attrs[i][0])} {hx(attrs[i][1])}", "modinfo-roundtrip"))
            elif t[0] == "find" and has:
                f = unhx(t[1]); r = "false"; claim = True
                for a in attrs:
                    if a is None: claim = False; break     # a record without '=' precedes: no claim
                    if a[0] == f: r = f"true {hx(a[1])}"; break
                exp.append((r if claim else None, "modinfo-by-name"))
            elif t[0] == "num" and has:
                exp.append((f"num={len(attrs)}", "modinfo-count"))
            elif t[0] == "setraw":
                cur = bytearray(unhx(t[1])); has = False; exp.append((f"data={hx(cur)}", "modinfo-raw"))
            elif t[0] == "reacc":
                if len(cur) and cur[-1] != 0:
                    safe = False; exp.append((None, "out-of-domain"))    # unterminated buffer without the loader's NUL: outside the property
                else:
                    attrs = parse_modinfo(bytes(cur)); has = True; exp.append((f"num={len(attrs)}", "modinfo-parse"))
            elif t[0] == "reload":
                attrs = parse_modinfo(bytes(cur)); has = True
                exp.append((f"num={len(attrs)} data={hx(cur)}", "modinfo-reload"))
            else:
                exp.append((None, ""))
    else:
        data, tab, num = unhx(kv.get("data", "-")), unhx(kv.get("str", "-")), int(kv.get("num", "0"), 0)
        dec = decode_need if kind == "vn" else decode_def
        sig = "verneed" if kind == "vn" else "verdef"
        exp.append((f"num={num}", sig + "-count"))
        for ln in case["lines"][1:]:
            t = ln.split()
            if t[0] == "get":
                i = int(t[1], 0) % (1 << 32)
                exp.append(("false", sig + "-index") if i >= num else (dec(enc, data, tab, i), sig + "-decode"))
            elif t[0] == "num":
                exp.append((f"num={num}", sig + "-count"))
            elif t[0] == "reload":
                exp.append((f"num={num} data={hx(data)}", sig + "-reload"))
            else:
                exp.append((None, ""))
    return kind, enc, exp


def oracle(case, out):
    v = []
    kind, enc, exp = expected(case)
    for i, ex in enumerate(exp):
        e, sig = ex[0], ex[1]
        if i >= len(out): break
        o = out[i]
        ln = case["lines"][i]
        if o.startswith("FAULT"):
            if e is None and sig == "out-of-domain":
                break                                   # outside the property's domain (unterminated raw modinfo)
            v.append({"signature": f"fault:{kind}-{ln.split()[0]}", "what": f"memory fault during `{ln[:70]}`: {o}"})
            break
        if e is None or o.startswith("bad-op"):
            continue
        if o != e:
            if kind == "vs" and enc == "msb" and len(ex) > 2 and o == ex[2]:
                v.append({"signature": "versym-byte-order",
                          "what": f"versym table not in the file's declared byte order: `{ln[:60]}` gave `{o[:70]}`, declared order demands `{e[:70]}`"})
                continue
            v.append({"signature": sig, "what": f"after `{ln[:70]}` got `{o[:90]}` expected `{e[:90]}`"})
            break
    if len(out) > len(exp) and out[len(exp)].startswith("FAULT"):
        v.append({"signature": "fault:end", "what": out[len(exp)]})
    return v


def nontrivial(case, out):
    return any(o.startswith("true") for o in out) or len({o.split("data=")[1] for o in out if "data=" in o}) > 1


def classify(case, out):
    op0, kv = kvs(case["lines"][0])
    kind = kv.get("kind", op0) if op0 == "file" else op0
    ks = [f"{kind}-{kv.get('cls', '?')}-{kv.get('enc', '?')}" + (f"-w{kv['w']}" if "w" in kv else "")]
    if op0 == "file": ks.append("file:" + os.path.basename(kv.get("path", "")))
    if case.get("meta", {}).get("raw"): ks.append("raw")
    if case.get("meta", {}).get("layout"): ks.append("layout:" + case["meta"]["layout"])
    ks += sorted({"op:" + l.split()[0] for l in case["lines"][1:]})
    if any("lazy=1" in l for l in case["lines"]): ks.append("lazy")
    if any(o.startswith("FAULT") for o in out): ks.append("fault")
    return ks
