"""C09 — symbol tables round-trip; lookup by name or value agrees with a linear scan; hash functions
equal their ABI definitions.

Proved (lean/ElfioVerif/Props/C09.lean + Lemmas/Symbols.lean, about Model/Symbols.lean whose guards,
offsets, truncations, `ELF_ST_*` uses and hash-walk index computations are the generated expressions of
Gen/SitesC09.lean and whose record members go through the generated layout and byte swap):
  elf_hash_eq / gnu_hash_eq     Gen.elf_hash = Spec.sysvHash, Gen.elf_gnu_hash = Spec.gnuHash for ALL byte
                                strings (+ arithmetic readings sysvStep_nat, gnuHash_nat); st_info_spec
  sym_bytes                     after ANY sequence of named adds on a new table: every add returned the next
                                index, the symbol section is exactly Spec.encodeTable (null :: records) (gABI
                                layout per class, byte order, ELF_ST_INFO), the string section is the NUL-led
                                concatenation of the names
  sym_roundtrip                 get_symbols_num = adds+1, index 0 = null symbol, index k+1 = k-th symbol's name
                                and attributes with value/size truncated to the class width, larger indices
                                refused with the out-parameters untouched
  getSymbol_decoded / readout_content_only / wf_loaded / sym_roundtrip_reloaded
                                on any well-formed table the read-out is the gABI decoding of the section
                                contents, hence a function of contents + header fields only; the table a load
                                yields from the same bytes (eager or lazy) answers every query identically
  lookup_value                  by-value lookup = first entry with that (class-width) value, any hash section
  lookup_name                   by-name lookup succeeds iff the name is present, with the attributes of an entry
                                of that name, = the linear scan for unique names - for ANY accompanying hash
                                section whose walk returns (soundness of the walks + unconditional fallback)
  hashLookup_total / gnuLookup_total / lookup_name_wellformed
                                over a well-formed SysV / GNU table (decidable SysvWf / GnuWf) the walks neither
                                fault nor loop, so the lookup returns and the above applies
  buildSysv_wf / buildGnu_wf / abi_hash_walk_safe
                                tables built by the ABI constructions (Spec.buildSysv / buildGnu, any bucket
                                count >= 1, any hash values) are well-formed
  validNames_built              built tables have valid name offsets
Ties between the layers: Gen/* regenerated from the source on every run; correspondence harness vs driver on
every case; the driver recomputes every attached hash table with Spec.buildSysv / Spec.buildGnu from the
current names and flags any difference from the generator's (Python, independent) ABI construction; the
oracle checks SysvWf/GnuWf on every attached table with its own reading of the predicate.
Only covered by correspondence + oracle (not by a theorem): that `save` writes the section contents unchanged
and `load` reads them back (C03/C05's loader/writer model; the harness saves, reloads, re-queries, and the saved
symbol table bytes are decoded per gABI by the oracle); completeness of the hash walks (not needed for the
property: the fallback makes lookups complete; exercised directly through `hlookup`); tables with a
non-standard entry size; memory safety of the walks on malformed tables is C18.
Finding fixed: fixes/09-hash-lookup-empty-name.patch (see known_findings.json).
"""
import itertools, struct

PROPERTY = "C09"
FAMILY = "c09"
LEAN_MODULE = "ElfioVerif.Props.C09"
THEOREMS = ["ElfioVerif.C09.elf_hash_eq", "ElfioVerif.C09.gnu_hash_eq", "ElfioVerif.C09.sysvStep_nat",
            "ElfioVerif.C09.gnuHash_nat", "ElfioVerif.C09.st_info_spec",
            "ElfioVerif.C09.sym_bytes", "ElfioVerif.C09.sym_roundtrip", "ElfioVerif.SymTab.getSymbol_decoded",
            "ElfioVerif.C09.readout_content_only", "ElfioVerif.C09.wf_loaded", "ElfioVerif.C09.sym_roundtrip_reloaded",
            "ElfioVerif.C09.lookup_value", "ElfioVerif.C09.lookup_name",
            "ElfioVerif.SymTab.hashLookup_sound", "ElfioVerif.SymTab.gnuLookup_sound",
            "ElfioVerif.SymTab.hashLookup_total", "ElfioVerif.SymTab.gnuLookup_total",
            "ElfioVerif.C09.lookup_name_wellformed", "ElfioVerif.SymTab.buildSysv_wf", "ElfioVerif.SymTab.buildGnu_wf",
            "ElfioVerif.C09.abi_hash_walk_safe", "ElfioVerif.C09.validNames_built"]
SITES = ["sym_", "sym32_", "sym64_", "sysv_", "gnu32_", "gnu64_", "str_get", "str_add", "elf_hash", "elf_gnu_hash",
         "conv16", "conv32", "conv64"]
RULE = ("tables of 0-60 symbols (names from a 6-letter alphabet incl. duplicates and the empty name, full-width "
        "value/size/shndx, bind/type 0-15 and a few wider) x {ELF32,ELF64} x {LSB,MSB}; queries by index "
        "(incl. out of range), by name (present/absent/empty), by value (present/absent/0), directly on the "
        "private hash walks; with no hash section, a SysV table (1..17 buckets) or a GNU table (1..17 buckets, "
        "bloom 1-4 words, shift 0-31) built in Python from the ABI definitions (also stale tables built before "
        "the last adds); before and after save + eager/lazy reload; saved symtab bytes decoded per gABI by the "
        "oracle; hash functions on all strings of length <= 3 over 6 letters + random byte strings; a few tables "
        "with non-standard entry size (correspondence only). thorough adds all add sequences of length <= 3 over "
        "a 5-symbol alphabet x 4 configurations x {none,sysv,gnu}. non-trivial = at least one symbol was added "
        "and read back, or a hash value was computed; distinct by md5 of the case text")
ASSUMPTIONS = ["new(nothrow) succeeds for the sizes generated (<= a few KiB)",
               "symbol section entry size = sizeof(Elf32_Sym/Elf64_Sym) (explicit hypothesis `Wf.ent`)",
               "section sizes stay below 2^32 (ELF32) / 2^61 (explicit `Fits` hypothesis of sym_bytes/sym_roundtrip)",
               "names passed to add/lookup contain no NUL byte (they are C strings)",
               "binding and type < 16 for 'returned unchanged' (4-bit fields of st_info; wider values are "
               "truncated by ELF_ST_INFO exactly as Spec.stInfo says)"]
TRUSTED = ["reload = SecBuf.loadedEager/loadedLazy of the saved contents with stream size >= section size "
           "(the loader/writer model belongs to C01-C05); checked here by the harness actually saving and "
           "reloading and by the oracle decoding the saved bytes",
           "harness reaches the private hash_lookup/gnu_hash_lookup via `#define private public`"]
KEEP_FIRST = 1

SHT_HASH = 5
SHT_GNU_HASH = 0x6ffffff6
ALPHA = b"abcxyz"
M32 = 0xffffffff


# ---------------------------------------------------------------- ABI definitions (independent)

def abi_elf_hash(name):
    h = 0
    for c in name:
        h = ((h << 4) + c) & M32
        g = h & 0xf0000000
        if g:
            h ^= g >> 24
        h &= ~g & M32
    return h


def abi_gnu_hash(name):
    h = 5381
    for c in name:
        h = (h * 33 + c) & M32
    return h


def words(vals, enc, n=4):
    return b"".join(int(v).to_bytes(n, "little" if enc == "lsb" else "big") for v in vals)


def build_sysv(names, nbucket, enc):
    """names[i] = name of symbol i (index 0 = null symbol).  gABI figure 5-12."""
    n = len(names)
    bucket = [0] * nbucket
    chain = [0] * n
    for i in range(1, n):
        h = abi_elf_hash(names[i]) % nbucket
        chain[i] = bucket[h]
        bucket[h] = i
    return words([nbucket, n] + bucket + chain, enc)


def build_gnu(names, symoffset, nbuckets, bloom_size, shift, cls, enc):
    """names[symoffset:] must be sorted by gnu_hash % nbuckets."""
    c = 32 if cls == 32 else 64
    bloom = [0] * bloom_size
    buckets = [0] * nbuckets
    chain = []
    hs = [abi_gnu_hash(nm) for nm in names[symoffset:]]
    for k, h in enumerate(hs):
        bloom[(h // c) % bloom_size] |= (1 << (h % c)) | (1 << ((h >> shift) % c))
        b = h % nbuckets
        if buckets[b] == 0:
            buckets[b] = symoffset + k
        last = (k + 1 == len(hs)) or (hs[k + 1] % nbuckets != b)
        chain.append((h & ~1 & M32) | (1 if last else 0))
    return (words([nbuckets, symoffset, bloom_size, shift], enc) + words(bloom, enc, c // 8) +
            words(buckets, enc) + words(chain, enc))


def rdw(b, off, enc, n=4):
    return int.from_bytes(b[off:off + n], "little" if enc == "lsb" else "big")


def sysv_wf(b, enc):
    """hypothesis `SysvWf` of lookup_name_wellformed, read independently"""
    if len(b) < 8: return False
    nb, nc = rdw(b, 0, enc), rdw(b, 4, enc)
    return (nb >= 1 and len(b) == 4 * (2 + nb + nc) and 2 + nb + nc < 2 ** 32 and
            all(rdw(b, 4 * (2 + nb + y), enc) < y for y in range(1, nc)))


def gnu_wf(b, enc, cls):
    """hypothesis `GnuWf` (for some number of chain words), read independently"""
    if len(b) < 16: return False
    w = 4 if cls == 32 else 8
    nbk, so, bs = rdw(b, 0, enc), rdw(b, 4, enc), rdw(b, 8, enc)
    base_b = 16 + bs * w; base_c = base_b + 4 * nbk
    if nbk < 1 or bs < 1 or len(b) < base_c or (len(b) - base_c) % 4: return False
    nch = (len(b) - base_c) // 4
    for k in range(nbk):
        bv = rdw(b, base_b + 4 * k, enc)
        if bv >= so and not bv - so < nch: return False
    return nch == 0 or rdw(b, base_c + 4 * (nch - 1), enc) % 2 == 1


# ---------------------------------------------------------------- generator

def hx(b):
    return b.hex() if b else "-"


def rand_name(rng, pool):
    k = rng.random()
    if k < 0.55 and pool:
        return rng.choice(pool)
    if k < 0.6:
        return b""
    return bytes(rng.choice(ALPHA) for _ in range(rng.randint(1, 6)))


def rand_val(rng, bits=64):
    k = rng.random()
    if k < 0.25: return rng.randint(0, 9)
    if k < 0.4: return (1 << bits) - 1 - rng.randint(0, 3)
    if k < 0.55: return rng.choice([0x80000000, 0xffffffff, 0x100000000, 0x100000005, 1 << 63]) & ((1 << bits) - 1)
    return rng.getrandbits(bits)


def add_line(nm, s):
    return f"add {hx(nm)} {s['value']:#x} {s['size']:#x} {s['bind']} {s['type']} {s['other']} {s['shndx']:#x}"


def rand_sym(rng, name):
    wide = rng.random() < 0.06
    return {"name": name, "value": rand_val(rng), "size": rand_val(rng),
            "bind": rng.randint(0, 255) if wide else rng.choice([0, 0, 1, 1, 2, 10, 13, 15]),
            "type": rng.randint(0, 255) if wide else rng.randint(0, 15),
            "other": rng.choice([0, 1, 2, 3, rng.randint(0, 255)]), "shndx": rand_val(rng, 16)}


def queries(rng, syms, with_hash):
    names = [s["name"] for s in syms]
    out = ["num"]
    n = len(syms) + (1 if syms else 0)
    idxs = {0, 1, n - 1, n, n + 1} | {rng.randint(0, n + 2) for _ in range(4)}
    out += [f"get {i}" for i in sorted(i for i in idxs if i >= 0)]
    if rng.random() < 0.1:
        out.append(f"get {rng.choice([1 << 32, (1 << 64) - 1, (1 << 60) + 1])}")
    qn = set(rng.sample(names, min(len(names), 5))) | {b"", b"zz", bytes(rng.choice(ALPHA) for _ in range(rng.randint(1, 4)))}
    for q in sorted(qn):
        out.append(f"byname {hx(q)}")
        if with_hash:
            out.append(f"hlookup {hx(q)}")
    vals = [s["value"] for s in syms]
    qv = set(rng.sample(vals, min(len(vals), 4))) | {0, rng.getrandbits(64), 0x55667788}
    qv |= {v & M32 for v in sorted(qv)[:2]}
    out += [f"byvalue {v:#x}" for v in sorted(qv)]
    rng.shuffle(out)
    return out


def table_names(syms):
    """names by symbol index: the null symbol exists once anything was added"""
    return ([b""] + [s["name"] for s in syms]) if syms else []


def hash_line(rng, kind, syms, cls, enc, symoffset=1):
    names = table_names(syms)
    if kind == "sysv":
        nb = rng.randint(1, 17)
        return f"sethash type={SHT_HASH} nb={nb} data={hx(build_sysv(names, nb, enc))}"
    return (f"sethash type={SHT_GNU_HASH} data=" +
            hx(build_gnu(names, symoffset, rng.randint(1, 17), rng.randint(1, 4), rng.randint(0, 31), cls, enc)))


def table_case(rng, cid, nsyms=None, kind=None, cfg=None):
    cls, enc = cfg or (rng.choice([32, 64]), rng.choice(["lsb", "msb"]))
    if nsyms is None:
        k = rng.random()
        nsyms = 0 if k < 0.04 else rng.randint(1, 6) if k < 0.5 else rng.randint(7, 25) if k < 0.85 else rng.randint(26, 60)
    kind = kind or rng.choice(["none", "none", "sysv", "sysv", "gnu", "gnu"])
    pool = [bytes(rng.choice(ALPHA) for _ in range(rng.randint(1, 4))) for _ in range(max(1, nsyms // 2))]
    unique = rng.random() < 0.6
    names = []
    for _ in range(nsyms):
        nm = rand_name(rng, pool)
        if unique:
            while nm in names or nm == b"":
                nm = nm + bytes([rng.choice(ALPHA)])
        names.append(nm)
    syms = [rand_sym(rng, nm) for nm in names]
    if rng.random() < 0.3 and len(syms) > 1:      # duplicate values for by-value lookups
        for s in rng.sample(syms, max(1, len(syms) // 3)):
            s["value"] = rng.choice(syms)["value"]
    lines = [f"new cls={cls} enc={enc}"]
    # a stale table: built before the last few symbols were added (still well-formed)
    stale = rng.randint(0, min(3, len(syms))) if (kind != "none" and rng.random() < 0.25) else 0
    pre, post = syms[:len(syms) - stale], syms[len(syms) - stale:]
    if kind == "gnu":
        # a GNU table requires the hashed symbols (index >= symoffset) grouped by bucket
        nb = rng.randint(1, 17); bs = rng.randint(1, 4); sh = rng.randint(0, 31)
        so = 1 + rng.randint(0, min(3, len(pre)))
        pre = pre[:so - 1] + sorted(pre[so - 1:], key=lambda s: abi_gnu_hash(s["name"]) % nb)
        hl = (f"sethash type={SHT_GNU_HASH} nb={nb} so={so} bs={bs} sh={sh} data=" +
              hx(build_gnu(table_names(pre), so, nb, bs, sh, cls, enc)))
    elif kind == "sysv":
        hl = hash_line(rng, "sysv", pre, cls, enc)
    syms = pre + post
    lines += [add_line(s["name"], s) for s in pre]
    if kind != "none":
        lines.append(hl)
    lines += [add_line(s["name"], s) for s in post]
    lines += queries(rng, syms, kind != "none")
    if rng.random() < 0.8:
        lines.append("save")
        lines.append(f"reload lazy={rng.randint(0, 1)}")
        lines += queries(rng, syms, kind != "none")
        if rng.random() < 0.3:
            extra = rand_sym(rng, rand_name(rng, pool) or b"q")
            lines.append(add_line(extra["name"], extra))
            syms = syms + [extra]
            lines += queries(rng, syms, kind != "none")
    return {"id": cid, "lines": lines, "meta": {"kind": kind}}


def raw_case(rng, cid):
    """raw-offset adds (6- and 7-argument add_symbol) after a few named ones; non-standard entry sizes"""
    cls, enc = rng.choice([32, 64]), rng.choice(["lsb", "msb"])
    std = 16 if cls == 32 else 24
    k = rng.random()
    ent = std if k < 0.5 else rng.choice([0, 1, std - 1, std + 1, std + 8, 2 * std, 3 * std])
    lines = [f"new cls={cls} enc={enc}" + (f" entsize={ent}" if ent != std or rng.random() < 0.3 else "")]
    off = 1; offs = [0]
    for _ in range(rng.randint(0, 4)):
        nm = bytes(rng.choice(ALPHA) for _ in range(rng.randint(1, 4)))
        s = rand_sym(rng, nm); lines.append(add_line(nm, s)); offs.append(off); off += len(nm) + 1
    for _ in range(rng.randint(1, 5)):
        o = rng.choice(offs + [off, off + 7, 0xffffffff]) if rng.random() < 0.5 else rng.choice(offs)
        s = rand_sym(rng, b"")
        if rng.random() < 0.5:
            lines.append(f"addi {o} {s['value']:#x} {s['size']:#x} {rng.randint(0, 255)} {s['other']} {s['shndx']:#x}")
        else:
            lines.append(f"addbt {o} {s['value']:#x} {s['size']:#x} {s['bind']} {s['type']} {s['other']} {s['shndx']:#x}")
    lines += ["num"] + [f"get {i}" for i in range(0, 12)] + ["byname -", "byname 61", "byvalue 0", f"byvalue {rng.randint(0, 9)}"]
    if ent >= std:
        lines += ["save", f"reload lazy={rng.randint(0, 1)}", "num", "get 1", "get 2", "byname -", "byvalue 0"]
    return {"id": cid, "lines": lines, "meta": {"raw": True}}


def hash_cases(rng, tier):
    strs = [b""]
    for n in (1, 2, 3):
        strs += [bytes(t) for t in itertools.product(ALPHA, repeat=n)]
    yield {"id": "hash-small", "lines": ["hash " + hx(s) for s in strs], "meta": {"hash": True}}
    for j in range(2 if tier == "quick" else 10):
        ls = []
        for _ in range(300):
            k = rng.random()
            n = rng.randint(0, 8) if k < 0.4 else rng.randint(9, 40) if k < 0.9 else rng.randint(41, 200)
            hi = rng.random() < 0.3
            ls.append("hash " + hx(bytes(rng.randint(0x80, 0xff) if hi and rng.random() < 0.7 else rng.randint(1, 0xff) for _ in range(n))))
        yield {"id": f"hash-rand{j}", "lines": ls, "meta": {"hash": True}}


def gen_cases(rng, tier):
    yield from hash_cases(rng, tier)
    n = 360 if tier == "quick" else 3600
    for i in range(n):
        yield table_case(rng, f"t{i}")
    for i in range(n // 6):
        yield raw_case(rng, f"w{i}")
    # every table size 0..60 at least once per tier, all four configurations
    for i, ns in enumerate(range(0, 61, 4 if tier == "quick" else 1)):
        for cfg in ((32, "lsb"), (32, "msb"), (64, "lsb"), (64, "msb")):
            yield table_case(rng, f"s{ns}-{cfg[0]}{cfg[1]}", nsyms=ns, cfg=cfg)
    # exhaustive small scope
    alpha = [{"name": b"a", "value": 1, "size": 2, "bind": 1, "type": 2, "other": 0, "shndx": 1},
             {"name": b"b", "value": 1, "size": 0xffffffffffffffff, "bind": 0, "type": 1, "other": 3, "shndx": 0xfff1},
             {"name": b"a", "value": 0x100000001, "size": 5, "bind": 2, "type": 0, "other": 1, "shndx": 2},
             {"name": b"", "value": 0, "size": 0, "bind": 0, "type": 3, "other": 0, "shndx": 3},
             {"name": b"ab", "value": 0xffffffff, "size": 7, "bind": 15, "type": 15, "other": 255, "shndx": 0xffff}]
    L = 2 if tier == "quick" else 3
    k = 0
    for cls, enc in ((32, "lsb"), (32, "msb"), (64, "lsb"), (64, "msb")):
        for ln in range(0, L + 1):
            for seq in itertools.product(range(len(alpha)), repeat=ln):
                for kind in ("none", "sysv", "gnu"):
                    syms = [alpha[i] for i in seq]
                    lines = [f"new cls={cls} enc={enc}"]
                    if kind == "gnu":
                        syms = sorted(syms, key=lambda s: abi_gnu_hash(s["name"]) % 3)
                    lines += [add_line(s["name"], s) for s in syms]
                    names = table_names(syms)
                    if kind == "sysv":
                        lines.append(f"sethash type={SHT_HASH} nb=3 data={hx(build_sysv(names, 3, enc))}")
                    elif kind == "gnu":
                        lines.append(f"sethash type={SHT_GNU_HASH} nb=3 so=1 bs=2 sh=5 data={hx(build_gnu(names, 1, 3, 2, 5, cls, enc))}")
                    q = ["num"] + [f"get {i}" for i in range(ln + 2)]
                    for nm in (b"a", b"b", b"", b"ab", b"c"):
                        q.append(f"byname {hx(nm)}")
                        if kind != "none": q.append(f"hlookup {hx(nm)}")
                    q += ["byvalue 0", "byvalue 1", "byvalue 0x100000001", "byvalue 0xffffffff"]
                    lines += q + ["save", f"reload lazy={k % 2}"] + q
                    yield {"id": f"x{k}", "lines": lines, "meta": {"exhaustive": True, "kind": kind}}
                    k += 1


# ---------------------------------------------------------------- oracle

def cstr(b):
    i = b.find(b"\0")
    return b if i < 0 else b[:i]


def unhx(h):
    return b"" if h == "-" else bytes.fromhex(h)


def st_info(bind, typ):          # gABI: ELF32_ST_INFO(b,t) = ((b)<<4)+((t)&0xf), stored in an unsigned char
    return ((bind << 4) + (typ & 0xf)) & 0xff


class Ref:
    """reference symbol table: list of dicts (name may be None = unresolvable offset)"""
    def __init__(self, cls, enc, ent):
        self.cls, self.enc, self.ent = cls, enc, ent
        self.std = ent == (16 if cls == 32 else 24)
        self.syms = []          # includes the null symbol once non-empty
        self.strtab = b""
        self.m = M32 if cls == 32 else (1 << 64) - 1

    def _push(self, name, name_off, value, size, info, other, shndx):
        if not self.syms:
            self.syms.append({"name": self._str(0), "off": 0, "value": 0, "size": 0, "info": 0, "other": 0, "shndx": 0})
        self.syms.append({"name": name, "off": name_off, "value": value & self.m, "size": size & self.m,
                          "info": info & 0xff, "other": other & 0xff, "shndx": shndx & 0xffff})
        return len(self.syms) - 1

    def _str(self, off):
        if off >= len(self.strtab):
            return None
        i = self.strtab.find(b"\0", off)
        return None if i < 0 else self.strtab[off:i]

    def add_named(self, name, value, size, bind, typ, other, shndx):
        name = cstr(name)
        if not self.strtab:
            self.strtab = b"\0"
        off = len(self.strtab)
        self.strtab += name + b"\0"
        if self.syms:
            self.syms[0]["name"] = self._str(0)
        return self._push(name, off, value, size, st_info(bind, typ), other, shndx)

    def add_raw(self, off, value, size, info, other, shndx):
        return self._push(self._str(off & M32), off & M32, value, size, info, other, shndx)

    def resolved(self):
        for s in self.syms:
            s["name"] = self._str(s["off"])
        return all(s["name"] is not None for s in self.syms)

    def encode(self, s):         # gABI figure 4-15/4-16
        e = "<" if self.enc == "lsb" else ">"
        if self.cls == 32:
            return struct.pack(e + "IIIBBH", s["off"], s["value"], s["size"], s["info"], s["other"], s["shndx"])
        return struct.pack(e + "IBBHQQ", s["off"], s["info"], s["other"], s["shndx"], s["value"], s["size"])


def fields(line):
    return dict(x.split("=", 1) for x in line.split()[1:] if "=" in x)


def attrs_match(f, s, with_value=True):
    ok = (int(f["size"]) == s["size"] and int(f["bind"]) == s["info"] >> 4 and int(f["type"]) == (s["info"] & 0xf)
          and int(f["shndx"]) == s["shndx"] and int(f["other"]) == s["other"])
    if with_value:
        ok = ok and int(f["value"]) == s["value"]
    return ok


def oracle(case, out):
    v = []
    ref = None
    def bad(sig, what):
        v.append({"signature": sig, "what": what})
    for i, ln in enumerate(case["lines"]):
        if i >= len(out):
            break
        o = out[i]; t = ln.split(); op = t[0]
        if o.startswith("FAULT"):
            bad("fault:" + op, f"fault during `{ln[:70]}`: {o}")
            return v
        if o.startswith("bad-op"):
            if op in ("save", "reload"):
                bad("save-reload-failed", f"`{ln}` -> {o}")
                return v
            continue
        if op == "hash":
            s = cstr(unhx(t[1])); f = dict(x.split("=") for x in o.split())
            if int(f["elf"]) != abi_elf_hash(s):
                bad("elf-hash", f"elf_hash({s!r}) = {f['elf']}, ABI definition gives {abi_elf_hash(s)}"); return v
            if int(f["gnu"]) != abi_gnu_hash(s):
                bad("gnu-hash", f"elf_gnu_hash({s!r}) = {f['gnu']}, ABI definition gives {abi_gnu_hash(s)}"); return v
            continue
        if op == "new":
            kv = fields(ln)
            cls = int(kv.get("cls", "64"))
            ref = Ref(cls, kv.get("enc", "lsb"), int(kv.get("entsize", 16 if cls == 32 else 24)))
            continue
        if ref is None:
            continue
        if op == "sethash":
            kv = fields(ln); d = unhx(kv.get("data", "-"))
            okh = sysv_wf(d, ref.enc) if int(kv.get("type", "5")) == SHT_HASH else gnu_wf(d, ref.enc, ref.cls)
            if not okh:     # the generator must only attach tables inside the theorems' hypotheses
                bad("generator:malformed-hash-table", f"`{ln[:50]}...` does not satisfy SysvWf/GnuWf"); return v
            continue
        if op in ("add", "addi", "addbt"):
            a = [int(x, 0) for x in t[2:]]
            if op == "add":
                k = ref.add_named(unhx(t[1]), *a)
            elif op == "addi":
                k = ref.add_raw(int(t[1], 0), a[0], a[1], a[2], a[3], a[4])
            else:
                k = ref.add_raw(int(t[1], 0), a[0], a[1], st_info(a[2], a[3]), a[4], a[5])
            if ref.std and o != f"idx={k}":
                bad("add-index", f"`{ln[:60]}` returned {o}, expected idx={k}"); return v
            continue
        if not ref.std:
            continue            # non-standard entry size: outside the property, correspondence only
        allres = ref.resolved()
        n = len(ref.syms)
        if op == "num":
            if o != f"num={n}":
                bad("num", f"get_symbols_num {o}, expected {n}"); return v
        elif op == "get":
            k = int(t[1], 0)
            if k >= n:
                if o != "false":
                    bad("get-oob", f"get_symbol({k}) on a table of {n}: {o}"); return v
            else:
                s = ref.syms[k]; f = fields(o)
                if not o.startswith("true") or not attrs_match(f, s) or (s["name"] is not None and unhx(f["name"]) != s["name"]):
                    what = "null symbol" if k == 0 else f"symbol {k}"
                    bad("get-null" if k == 0 else "get-mismatch", f"{what}: got `{o}` expected name={s['name']} {s}"); return v
        elif op in ("byname", "hlookup"):
            if o == "nohash":
                continue
            q = unhx(t[1])
            if not allres and q == b"":
                continue
            cands = [s for s in ref.syms if s["name"] == q]
            if o.startswith("true"):
                f = fields(o)
                if not cands:
                    bad(op + "-phantom", f"{op} {q!r} succeeded but no symbol has that name: {o}"); return v
                if len(cands) == 1:
                    if not attrs_match(f, cands[0]):
                        bad(op + "-attrs", f"{op} {q!r}: got `{o}` expected {cands[0]}"); return v
                elif not any(attrs_match(f, s) for s in cands):
                    bad(op + "-attrs", f"{op} {q!r}: got `{o}`, matches none of the {len(cands)} symbols of that name"); return v
            elif op == "byname" and cands:
                bad("byname-missed", f"byname {q!r} failed although symbol {ref.syms.index(cands[0])} has that name"); return v
        elif op == "byvalue":
            q = int(t[1], 0)
            first = next((s for s in ref.syms if s["value"] == q), None)
            if first is None:
                if o != "false":
                    bad("byvalue-phantom", f"byvalue {q:#x}: {o} but no symbol has that value"); return v
            else:
                f = fields(o)
                if not o.startswith("true") or not attrs_match(f, first, False) or \
                   (first["name"] is not None and unhx(f["name"]) != first["name"]):
                    bad("byvalue-mismatch", f"byvalue {q:#x}: got `{o}` expected first match {first}"); return v
        elif op == "save":
            f = dict(x.split("=") for x in o.split())
            symb, strb = unhx(f.get("symtab", "-")), unhx(f.get("strtab", "-"))
            exp = b"".join(ref.encode(s) for s in ref.syms)
            if symb != exp:
                es = 16 if ref.cls == 32 else 24
                k = next((j for j in range(max(len(exp), len(symb)) // es + 1) if symb[j * es:(j + 1) * es] != exp[j * es:(j + 1) * es]), 0)
                bad("saved-bytes", f"saved symbol table differs from the gABI encoding at entry {k}: "
                    f"{symb[k*es:(k+1)*es].hex()} expected {exp[k*es:(k+1)*es].hex()}"); return v
            for k, s in enumerate(ref.syms):       # names through the saved string table
                if s["name"] is not None:
                    j = strb.find(b"\0", s["off"])
                    if s["off"] >= len(strb) or j < 0 or strb[s["off"]:j] != s["name"]:
                        bad("saved-name", f"saved st_name of symbol {k} does not lead to {s['name']!r}"); return v
    if len(out) > len(case["lines"]) and out[len(case["lines"])].startswith("FAULT"):
        bad("fault:end", out[len(case["lines"])])
    return v


def nontrivial(case, out):
    return any(o.startswith("true name=") and "name=-" not in o for o in out) or any(o.startswith("elf=") for o in out)


def classify(case, out):
    ks = set()
    first = case["lines"][0]
    if first.startswith("new"):
        kv = fields(first)
        ks.add(f"cfg:{kv.get('cls')}{kv.get('enc')}")
        if "entsize" in kv: ks.add("entsize-explicit")
    nadd = sum(1 for l in case["lines"] if l.startswith("add"))
    if first.startswith("new"):
        ks.add("syms:0" if nadd == 0 else "syms:1-6" if nadd <= 6 else "syms:7-25" if nadd <= 25 else "syms:26-61")
    for l in case["lines"]:
        op = l.split()[0]
        if op == "sethash":
            ks.add("hash:sysv" if f"type={SHT_HASH} " in l else "hash:gnu")
        elif op in ("reload",):
            ks.add("reload-lazy" if "lazy=1" in l else "reload-eager")
        elif op in ("hash", "addi", "addbt", "save"):
            ks.add("op:" + op)
    for l, o in zip(case["lines"], out):
        op = l.split()[0]
        if op in ("byname", "byvalue", "hlookup", "get"):
            ks.add(f"{op}:{'hit' if o.startswith('true') else 'miss'}")
    if any(o.startswith("FAULT") for o in out): ks.add("fault")
    return sorted(ks)
