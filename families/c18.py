"""C18 — every table query on any loaded file is memory-safe.

Proved (lean/ElfioVerif/Props/C18.lean; lemmas Lemmas/TableSafety{,Gnu,Ver,Swap,Mut}.lean) about
Model/TableQuery.lean = the query interfaces as they are after fixes/10..15, 17..21: the new guards are the generated
expressions of Gen/SitesC18.lean (`tq_...`, translated from the patched source) in front of / inside the accessor
families' models (Model/Symbols, Reloc, Arrange, Array, Versym; every raw access a checked read or write).
Domain `Sec b`: a section as get_data() leaves it in a loaded object - settled, data = none or data = some d with
size < d.length - with ANY header field values and ANY contents; `Small b`: a resident section is shorter than
4 GiB (needed where a 32-bit counter of the code could wrap).  For ARBITRARY indices / names / values / counts each
query returns `.ok _` (no fault, no fuel exhaustion = always returns):
  reloc_get_total           get_entry(index, offset, symbol, type, addend)
  reloc_get_resolved_total  get_entry(index, offset, symbolValue, symbolName, type, addend, calcValue), any symbol
                            table accessor on Sec sections or none (sh_link names no section)
  sysv_walk_total / gnu_walk_total   hash_lookup / gnu_hash_lookup<T> on ARBITRARY hash section contents (the step
                            bounds the fixes introduce make the models' fuel sufficient)
  sym_by_name_total         get_symbol(name, ...) = hash walks + linear fallback
  sym_by_value_total        get_symbol(value, ...)
  array_get_total           array get_entry, entry widths 4 and 8
  versym_get_total          versym get_entry (count cached by the accessor's constructor)
  verneed_get_total / verdef_get_total   for ANY DT_VERNEEDNUM / DT_VERDEFNUM value and any linked string section
  swap_symbols_total        swap_symbols(first, second), any arguments; the section stays in the domain
  arrange_total_any         arrange_local_symbols with the callback forwarding to swap_symbols of any list of
                            relocation sections (via C10.arrange_total / arrange_empty)
  secGetData_settled / sec_of_loaded / small_of_loaded   the loader invariant (C01 LoadedSec) gives the domain
  runQuery_total / queries_total   composition with C01.load_inv: on the object a load of ANY byte string shorter
                            than 4 GiB yields (eager/lazy, string/file stream, any translation table), every query
                            (TQ.runQuery: sections looked up by ARBITRARY index, made resident against the real stream
                            with the loader model's secGetData) returns
  runQuery_inv / runQueries_inv / queries_seq_total   after ANY sequence of read-only queries (lazy loads mutate the
                            object) every further query, incl. arrange / swap, returns
  *_witness (13)            each repaired finding machine-checked: the model of the unfixed function (the accessor
                            families' definitions; for F7(a) the resolved get_entry without its null test) faults on a
                            concrete input - nbucket = 0, chain cycle (fuel), bloom_size = 0, nbuckets = 0, GNU chain
                            without end mark, null data (arrange, array, versym, relocation), vn_next / vd_aux outside the
                            section, name offset outside the string table - and the fixed model returns on it.
  swap_preserves_sec / arrange_preserves_sec   the two MUTATING queries keep the domain: on Sec, Small sections (ANY
                            header fields and contents) they return, every section they wrote to - the swapped relocation
                            section; the arranged symbol section and every relocation section of the callback, position by
                            position - is again Sec and Small, is the old section up to buffer CONTENTS (and sh_info of
                            the symbol section): same size / flags / link / entsize / type / offsets / loader flags, the
                            buffer keeps its length, no section becomes resident or non-resident.  From the byte-level
                            models: arrange_frame (ANY run of Model/Arrange.lean's loop that returns, any callback: every
                            write is a wrRange, which keeps the length), C10.arrange_refines with the callback invariant
                            KeepAll, C11's setWrites shape (setWrites_ok) through Keep.
  QInv / load_qinv          QInv o := the stream is shorter than 4 GiB and every section (resident or not, settled or not) has
                            size < d.length and size < 2^32 when resident.  NO clause about buffer contents / file bytes.
                            load of ANY byte string < 4 GiB establishes it (from C01.load_objInv); secGetData_qsec: get_data()
                            against the stream keeps / establishes it without the loader invariant (a new buffer holds size
                            bytes that WERE read + the terminator).
  runQuery_qinv / runQueries_qinv   on an object with QInv EVERY query - arrange and swap included - returns and the
                            object it leaves has QInv again; so does any finite sequence.
  queries_any_seq_total     load ANY byte string < 4 GiB (eager/lazy, string/file stream, any translation table), then ANY
                            finite sequence of queries in which mutating (arrange, swap) and read-only ones are freely
                            interleaved, arbitrary section indices / entry indices / names / values / counts: every query
                            returns without fault, one result per query, QInv holds at the end (so any continuation returns).
  runQuery_hdr / runQueries_hdr / queries_any_seq_hdr   no query changes class, byte order, translation table, ELF header,
                            segments, the number of sections, or any header field other than sh_info of any section.
  runQuery_total / queries_total / queries_seq_total (kept) are now special cases of the above.
  verCount_total / dynNum_qinv   the entry count the version accessors' constructors read (TQ.dynNum: C12's dynamic
                            accessor model on the first section named .dynamic and sections[(Elf_Half)sh_link], both made
                            resident; the driver calls exactly this function) returns on every object with QInv - also
                            after mutating queries wrote into those sections - and keeps QInv and the header side.
  runStep_qinv / runSteps_qinv / steps_any_seq_total   the same for EVERYTHING an op line of the protocol does with the
                            object (C18.Step: a query | a bare get_data() | a version accessor construction): after a load
                            of ANY byte string < 4 GiB any finite sequence of steps returns without fault, QInv holds at the
                            end, no header field other than sh_info changed.
What stays open (covered by correspondence only): the output VALUES of the queries (their meaning is C09/C10/C11/C14's
subject; after arrange the hash tables are stale and lookups by name may miss - model and implementation agree on every
case); that DT_VERNEEDNUM / DT_VERDEFNUM of the real constructor equal TQ.dynNum's value (the query theorems quantify over
ALL counts, so safety does not depend on it); QInv's size hypothesis: inputs of 4 GiB and more (the 32-bit counters of
arrange_local_symbols / swap_symbols / the GNU walk may wrap).  No precondition of any query's model had to be left
unpreserved: there is no ..._partial.  The implementation side of memory safety is observed by ASan/UBSan/
_GLIBCXX_ASSERTIONS and a 5 s alarm per case; the quick tier runs read-only queries AFTER arrange / swap on the same object
in > 90 % of its cases (distribution labels seq:query-after-arrange / seq:query-after-swap / seq:mutation-after-mutation),
one third of the cases with mutating and read-only queries shuffled together.
Findings: F7 (a)-(f) reproduced on the unfixed tree (corpus/c18/*.case) and repaired by fixes/10..15, 17..21, one defect per
patch; fixes/20 (swap_symbols over a data-less section: 32-bit loop variable vs. 64-bit count) is new.  Reloc.setGeneric
(C11's model) was updated for fixes/21; the other accessor families' definitions remain the models of the function
bodies behind the new guards, which is all their theorems exercise.
"""
import os, struct
from families.loadcommon import *

PROPERTY = "C18"
FAMILY = "load"
LEAN_MODULE = "ElfioVerif.Props.C18"
THEOREMS = ["ElfioVerif.C18." + t for t in (
    "reloc_get_total", "reloc_get_resolved_total", "sym_by_name_total", "sym_by_value_total",
    "array_get_total", "versym_get_total", "verneed_get_total", "verdef_get_total", "arrange_total_any",
    "sysv_walk_total", "gnu_walk_total", "swap_symbols_total", "runQuery_total", "queries_total",
    "runQuery_inv", "runQueries_inv", "queries_seq_total", "secGetData_settled", "sec_of_loaded", "small_of_loaded",
    "swap_preserves_sec", "arrange_preserves_sec", "arrange_frame", "secGetData_qsec", "qinv_of_objInv", "load_qinv",
    "settle_q", "runQuery_qinv", "runQueries_qinv", "queries_any_seq_total", "runQuery_hdr", "runQueries_hdr",
    "queries_any_seq_hdr", "verCount_total", "dynNum_qinv", "runStep_qinv", "runSteps_qinv", "steps_any_seq_total",
    "reloc_null_symtab_witness", "sysv_nbucket_zero_witness", "sysv_cycle_witness", "gnu_bloom_zero_witness",
    "gnu_nbuckets_zero_witness", "gnu_walk_oob_witness", "arrange_null_data_witness", "array_null_data_witness",
    "versym_null_data_witness", "reloc_null_data_witness", "verneed_oob_witness", "verdef_oob_witness",
    "verneed_null_string_witness")]
SITES = ["tq_", "sym_", "sym32_", "sym64_", "sysv_", "gnu32_", "gnu64_", "reloc_", "rsw_", "arr", "vs_", "vr_", "vd_",
         "str_get", "elf_hash", "elf_gnu_hash", "conv16", "conv32", "conv64", "sec32_load", "sec64_load"]
RULE = ("images with .dynsym+.dynstr+.gnu.hash, .symtab+.strtab+.hash, .rela.dyn/.rel.plt (sh_link/sh_info), "
        ".init_array, .gnu.version/_r/_d, .dynamic (DT_VERNEEDNUM/DT_VERDEFNUM), built by an independent Python "
        "encoder in the 4 class/byte-order configurations; structure-aware corruptions: sh_offset/sh_size beyond EOF "
        "(data fails to load), sh_entsize 0/1/sizeof-1/sizeof+1/huge, sh_link out of range / truncating to a valid "
        "index / pointing to a non-string section, section type swaps, nbucket/nchain/nbuckets/bloom_size/symoffset/"
        "bloom_shift 0 or huge, bucket and chain words out of range, chain cycles, GNU chains without terminator, "
        "vn_next/vn_aux/vd_next/vd_aux/name offsets outside the section, DT_*NUM 0/huge; elfspec.mutate on top; the "
        "bundled examples containing such tables (and mutations of them); x {eager,lazy}; every table section (and "
        "some non-table sections) queried by rel / symname / symvalue / arr32 / arr64 / versym / verneed / verdef / "
        "arrange / swap at indices {0,1,count-1,count,count+1,2^32-1}; names: present, absent, empty; AFTER the mutating ops "
        "the read-only queries again on every section they wrote to (by name through the stale hash tables, by value, "
        "rel +- resolution, versym), a second arrange / swap and a query after it; 1/3 of the cases with mutating and "
        "read-only ops shuffled. Oracle: no FAULT "
        "(sanitizer report, signal, 5 s alarm) on any op. non-trivial = the file loaded and at least one table op "
        "returned an in-range entry; distinct by md5")
ASSUMPTIONS = ["inputs shorter than 2^32 bytes (hypothesis of arrange_total_any / queries_total: the 32-bit loop "
               "variables of arrange_local_symbols / swap_symbols do not wrap)",
               "new(nothrow) succeeds for requests <= len+1"]
TRUSTED = ["ASan/UBSan/_GLIBCXX_ASSERTIONS and a 5 s alarm as fault detectors on the implementation side",
           "DT_VERNEEDNUM/DT_VERDEFNUM: the value TQ.dynNum (C12's accessor model; proved total: dynNum_qinv) delivers is "
           "compared with the implementation's on every case, not proved equal"]
KEEP_FIRST = 2
TIMEOUT_S = 5

SHT_DYNSYM, SHT_INIT_ARRAY = 11, 14
SHT_GNU_HASH, SHT_GNU_verdef, SHT_GNU_verneed, SHT_GNU_versym = 0x6ffffff6, 0x6ffffffd, 0x6ffffffe, 0x6fffffff
DT_GNU_HASH_AS_TYPE = 0x6ffffef5
DT_VERDEFNUM, DT_VERNEEDNUM = 0x6ffffffd, 0x6fffffff
SHT_SYMTAB, SHT_STRTAB, SHT_RELA, SHT_HASH, SHT_DYNAMIC, SHT_REL = 2, 3, 4, 5, 6, 9


# ------------------------------------------------------------------ independent encoders (gABI / GNU docs)

def P(v, w, enc):
    return int(v % (1 << (8 * w))).to_bytes(w, "little" if enc == "lsb" else "big")


def G(b, off, w, enc):
    return int.from_bytes(b[off:off + w], "little" if enc == "lsb" else "big")


def sysv_hash(name):
    h = 0
    for c in name:
        h = ((h << 4) + c) & 0xffffffff
        g = h & 0xf0000000
        if g:
            h ^= g >> 24
        h &= ~g & 0xffffffff
    return h


def gnu_hash(name):
    h = 5381
    for c in name:
        h = (h * 33 + c) & 0xffffffff
    return h


def enc_sym(cls, enc, name, value, size, info, other, shndx):
    if cls == 32:
        return P(name, 4, enc) + P(value, 4, enc) + P(size, 4, enc) + bytes([info & 255, other & 255]) + P(shndx, 2, enc)
    return P(name, 4, enc) + bytes([info & 255, other & 255]) + P(shndx, 2, enc) + P(value, 8, enc) + P(size, 8, enc)


def enc_rel(cls, enc, off, sym, typ, addend=None):
    if cls == 32:
        b = P(off, 4, enc) + P((sym << 8) | (typ & 255), 4, enc)
        return b + (P(addend, 4, enc) if addend is not None else b"")
    b = P(off, 8, enc) + P((sym << 32) | (typ & 0xffffffff), 8, enc)
    return b + (P(addend, 8, enc) if addend is not None else b"")


def build_sysv(enc, names, nbucket):
    """names[i] = name of symbol i (index 0 = null symbol)"""
    n = len(names)
    bucket = [0] * nbucket; chain = [0] * n
    for i in range(1, n):
        h = sysv_hash(names[i]) % nbucket
        chain[i] = bucket[h]; bucket[h] = i
    return b"".join(P(x, 4, enc) for x in [nbucket, n] + bucket + chain)


def build_gnu(cls, enc, names, symoffset, nbuckets, bloom_size, shift):
    """names[i] for all symbols; those from symoffset on must be sorted by gnu_hash % nbuckets"""
    C = 32 if cls == 32 else 64
    bloom = [0] * bloom_size; buckets = [0] * nbuckets; chains = []
    hs = [gnu_hash(nm) for nm in names[symoffset:]]
    for k, h in enumerate(hs):
        bloom[(h // C) % bloom_size] |= (1 << (h % C)) | (1 << ((h >> shift) % C))
        b = h % nbuckets
        if buckets[b] == 0:
            buckets[b] = symoffset + k
        last = k + 1 == len(hs) or hs[k + 1] % nbuckets != b
        chains.append((h & ~1) | (1 if last else 0))
    return (b"".join(P(x, 4, enc) for x in [nbuckets, symoffset, bloom_size, shift]) +
            b"".join(P(x, C // 8, enc) for x in bloom) + b"".join(P(x, 4, enc) for x in buckets + chains))


def strtab_of(names):
    tab = b"\0"; off = []
    for nm in names:
        if nm == b"":
            off.append(0)
        else:
            off.append(len(tab)); tab += nm + b"\0"
    return tab, off


class Image:
    """sections: list of dicts (sh_* fields, name, data); layout() -> bytes, plus the byte offsets of every
    section header and every section's data (for the structure-aware corruptions)"""

    def __init__(self, cls, enc):
        self.cls, self.enc = cls, enc
        self.secs = [dict(name=b"", sh_type=0, data=None)]

    def add(self, name, ty, data, link=0, info=0, entsize=0, flags=0, align=1):
        self.secs.append(dict(name=name, sh_type=ty, data=data, sh_link=link, sh_info=info, sh_entsize=entsize,
                              sh_flags=flags, sh_addralign=align))
        return len(self.secs) - 1

    def layout(self):
        cls, enc = self.cls, self.enc
        secs = self.secs
        shstr, offs = strtab_of([s["name"] for s in secs] + [b".shstrtab"])
        all_secs = secs + [dict(name=b".shstrtab", sh_type=SHT_STRTAB, data=shstr)]
        pos = elfspec.EHSIZE[cls]
        body = bytearray()
        self.data_off = []
        for s in all_secs:
            d = s.get("data")
            if d is None:
                self.data_off.append(0); continue
            pad = (-pos) % 8
            body += bytes(pad); pos += pad
            self.data_off.append(pos)
            body += d; pos += len(d)
        pad = (-pos) % 8
        body += bytes(pad); pos += pad
        shoff = pos
        sht = bytearray()
        for i, s in enumerate(all_secs):
            d = s.get("data")
            sht += elfspec.pack(elfspec.SHDR[cls], dict(
                sh_name=offs[i], sh_type=s["sh_type"], sh_flags=s.get("sh_flags", 0), sh_addr=0,
                sh_offset=self.data_off[i], sh_size=len(d) if d is not None else 0, sh_link=s.get("sh_link", 0),
                sh_info=s.get("sh_info", 0), sh_addralign=s.get("sh_addralign", 0), sh_entsize=s.get("sh_entsize", 0)), enc)
        ident = b"\x7fELF" + bytes([1 if cls == 32 else 2, 1 if enc == "lsb" else 2, 1]) + bytes(9)
        eh = elfspec.pack(elfspec.EHDR[cls], dict(
            e_type=3, e_machine=62 if cls == 64 else 3, e_version=1, e_entry=0, e_phoff=0, e_shoff=shoff, e_flags=0,
            e_ehsize=elfspec.EHSIZE[cls], e_phentsize=elfspec.PHSIZE[cls], e_phnum=0, e_shentsize=elfspec.SHSIZE[cls],
            e_shnum=len(all_secs), e_shstrndx=len(all_secs) - 1), enc)
        self.shoff = shoff
        self.nsec = len(all_secs)
        return bytes(ident + eh + body + sht)

    def shfield(self, i, field):
        """(byte offset, width) of a field of section header i"""
        tbl = elfspec.SHDR[self.cls]
        o = self.shoff + i * elfspec.SHSIZE[self.cls]
        for n, w in tbl:
            if n == field:
                return o, w
            o += w
        raise KeyError(field)


SYMNAMES = [b"main", b"foo", b"bar", b"printf", b"x", b"a_rather_long_symbol_name_", b"_init", b"_fini", b"data_start",
            b"baz", b"qux", b"GLIBC_2.2.5", b"zz", b"f1", b"f2", b"f3", b"g"]


def typed_image(rng, cls, enc):
    """-> (img bytes, Image, info): a small shared-object-like image with every table kind"""
    im = Image(cls, enc)
    symsz = 16 if cls == 32 else 24
    aw = 4 if cls == 32 else 8
    # --- .dynsym / .dynstr / .gnu.hash
    nloc = rng.randint(0, 2)
    nhashed = rng.randint(1, 7)
    dn = rng.sample(SYMNAMES, nloc + nhashed)
    nbuckets = rng.randint(1, 4); bloom_size = rng.choice([1, 1, 2, 4]); shift = rng.choice([0, 5, 6, 31])
    symoffset = 1 + nloc
    hashed = sorted(dn[nloc:], key=lambda nm: gnu_hash(nm) % nbuckets)
    dyn_names = [b""] + dn[:nloc] + hashed
    dynstr_extra = [b"libc.so.6", b"libm.so.6", b"GLIBC_2.2.5", b"GLIBC_2.14", b"VERS_1.0", b"VERS_2.0", b"libtest.so"]
    dynstr, doffs = strtab_of(dyn_names[1:] + dynstr_extra)
    doff = dict(zip(dyn_names[1:] + dynstr_extra, doffs))
    dynsym = enc_sym(cls, enc, 0, 0, 0, 0, 0, 0)
    for k, nm in enumerate(dyn_names[1:]):
        bind = 0 if k < nloc else rng.choice([1, 1, 2])
        dynsym += enc_sym(cls, enc, doff[nm], rng.choice([0, 0x1000 + 16 * k, elfspec.rand_width(rng, aw)]),
                          rng.choice([0, 4, 8, 64]), (bind << 4) | rng.choice([0, 1, 2]), 0, rng.choice([0, 1, 7, 0xfff1]))
    i_dynsym = im.add(b".dynsym", SHT_DYNSYM, dynsym, link=2, info=symoffset, entsize=symsz, flags=2, align=8)
    i_dynstr = im.add(b".dynstr", SHT_STRTAB, dynstr, flags=2)
    assert i_dynstr == 2
    gnu = build_gnu(cls, enc, dyn_names, symoffset, nbuckets, bloom_size, shift)
    i_gnu = im.add(b".gnu.hash", SHT_GNU_HASH, gnu, link=i_dynsym, flags=2, align=8)
    # --- .symtab / .strtab / .hash : locals and globals interleaved (arrange has work to do)
    ns = rng.randint(1, 8)
    sn = rng.sample(SYMNAMES, ns)
    strtab, soffs = strtab_of(sn)
    symtab = enc_sym(cls, enc, 0, 0, 0, 0, 0, 0)
    for k, nm in enumerate(sn):
        bind = rng.choice([0, 1, 1, 2])
        symtab += enc_sym(cls, enc, soffs[k], rng.choice([0, 0x2000 + 8 * k, 0x2000, elfspec.rand_width(rng, aw)]),
                          rng.choice([0, 1, 16]), (bind << 4) | rng.choice([0, 1, 2, 3]), 0, rng.choice([0, 1, 5, 0xfff2]))
    i_symtab = im.add(b".symtab", SHT_SYMTAB, symtab, link=5, info=1, entsize=symsz, align=8)
    i_strtab = im.add(b".strtab", SHT_STRTAB, strtab)
    assert i_strtab == 5
    sysv = build_sysv(enc, [b""] + sn, rng.randint(1, 5))
    i_hash = im.add(b".hash", SHT_HASH, sysv, link=i_symtab, entsize=4, align=4)
    # --- relocations
    nrela = rng.randint(0, 5)
    rela = b"".join(enc_rel(cls, enc, 0x3000 + 8 * k, rng.randrange(0, len(dyn_names) + 1),
                            rng.choice([0, 1, 2, 5, 6, 7, 8, 37]), rng.choice([0, 4, -4, 1 << 31])) for k in range(nrela))
    i_rela = im.add(b".rela.dyn", SHT_RELA, rela, link=i_dynsym, info=0, entsize=3 * aw, flags=2, align=8)
    nrel = rng.randint(0, 5)
    rel = b"".join(enc_rel(cls, enc, 0x4000 + 4 * k, rng.randrange(0, ns + 2), rng.choice([0, 1, 2, 7])) for k in range(nrel))
    i_rel = im.add(b".rel.plt", SHT_REL, rel, link=i_symtab, info=1, entsize=2 * aw, align=8)
    # --- .init_array
    w = rng.choice([4, 8])
    arr = b"".join(P(elfspec.rand_width(rng, w), w, enc) for _ in range(rng.randint(0, 4)))
    i_arr = im.add(b".init_array", SHT_INIT_ARRAY, arr, entsize=w, flags=3, align=8)
    # --- versions
    nd = len(dyn_names)
    versym = b"".join(P(rng.choice([0, 1, 2, 3]), 2, enc) for _ in range(nd))
    i_versym = im.add(b".gnu.version", SHT_GNU_versym, versym, link=i_dynsym, entsize=2, flags=2, align=2)
    nneed = rng.randint(1, 3)
    need = bytearray()
    for k in range(nneed):
        naux = rng.randint(1, 2)
        nxt = 16 + 16 * naux if k + 1 < nneed else 0
        need += P(1, 2, enc) + P(naux, 2, enc) + P(doff[rng.choice([b"libc.so.6", b"libm.so.6", b"libtest.so"])], 4, enc) + \
            P(16, 4, enc) + P(nxt, 4, enc)
        for a in range(naux):
            vn = rng.choice([b"GLIBC_2.2.5", b"GLIBC_2.14"])
            need += P(sysv_hash(vn), 4, enc) + P(0, 2, enc) + P(2 + a, 2, enc) + P(doff[vn], 4, enc) + \
                P(16 if a + 1 < naux else 0, 4, enc)
    i_need = im.add(b".gnu.version_r", SHT_GNU_verneed, bytes(need), link=i_dynstr, info=nneed, flags=2, align=4)
    ndef = rng.randint(1, 3)
    vdef = bytearray()
    for k in range(ndef):
        vn = rng.choice([b"VERS_1.0", b"VERS_2.0", b"libtest.so"])
        vdef += P(1, 2, enc) + P(1 if k == 0 else 0, 2, enc) + P(k + 1, 2, enc) + P(1, 2, enc) + P(sysv_hash(vn), 4, enc) + \
            P(20, 4, enc) + P(28 if k + 1 < ndef else 0, 4, enc)
        vdef += P(doff[vn], 4, enc) + P(0, 4, enc)
    i_def = im.add(b".gnu.version_d", SHT_GNU_verdef, bytes(vdef), link=i_dynstr, info=ndef, flags=2, align=4)
    dynamic = b"".join(P(t, aw, enc) + P(v, aw, enc) for t, v in
                       [(1, doff[b"libc.so.6"]), (DT_VERNEEDNUM, nneed), (DT_VERDEFNUM, ndef), (14, doff[b"libtest.so"]), (0, 0)])
    i_dyn = im.add(b".dynamic", SHT_DYNAMIC, dynamic, link=i_dynstr, entsize=2 * aw, flags=3, align=8)
    img = im.layout()
    info = dict(dynsym=i_dynsym, dynstr=i_dynstr, gnu=i_gnu, symtab=i_symtab, strtab=i_strtab, hash=i_hash, rela=i_rela,
                rel=i_rel, arr=i_arr, versym=i_versym, need=i_need, vdef=i_def, dynamic=i_dyn, shstr=im.nsec - 1,
                dyn_names=dyn_names, sym_names=[b""] + sn, nneed=nneed, ndef=ndef, symsz=symsz, aw=aw, arrw=w)
    return img, im, info


# ------------------------------------------------------------------ structure-aware corruptions

def corrupt(rng, img, im, info):
    """one corruption from the property's list; returns (bytes, label)"""
    b = bytearray(img)
    cls, enc = im.cls, im.enc
    L = len(b)
    symsz, aw = info["symsz"], info["aw"]

    def seth(i, field, v):
        o, w = im.shfield(i, field)
        b[o:o + w] = P(v, w, enc)

    def word(sec, k, v=None, w=4):
        o = im.data_off[sec] + k * w
        if v is None:
            return G(b, o, w, enc)
        if o + w <= L:
            b[o:o + w] = P(v, w, enc)

    tables = [info[k] for k in ("dynsym", "symtab", "gnu", "hash", "rela", "rel", "arr", "versym", "need", "vdef", "dynamic", "dynstr", "strtab")]
    kind = rng.choice(["nodata", "nodata", "entsize", "entsize", "link", "link", "type", "sysv", "sysv", "sysv", "gnu", "gnu", "gnu",
                       "need", "need", "vdef", "vdef", "dynnum", "size", "symname"])
    if kind == "nodata":
        t = rng.choice(tables)
        if rng.random() < 0.5:
            seth(t, "sh_offset", rng.choice([L, L + 1, L - 1, 1 << 31, (1 << (8 * aw)) - 1, 1 << (8 * aw - 1)]))
        else:
            seth(t, "sh_size", rng.choice([L, L + 1, L - im.data_off[t] + 1, 1 << 31, (1 << (8 * aw)) - 1, 1 << (8 * aw - 1)]))
        return bytes(b), "nodata"
    if kind == "size":
        t = rng.choice(tables)
        o, w = im.shfield(t, "sh_size"); cur = G(b, o, w, enc)
        seth(t, "sh_size", rng.choice([0, 1, 2, 3, 4, 7, 8, 15, 16, 17, max(cur - 1, 0), cur + 1, cur // 2]))
        return bytes(b), "size"
    if kind == "entsize":
        t = rng.choice([info[k] for k in ("dynsym", "symtab", "rela", "rel", "arr", "versym", "dynamic", "hash")])
        rec = {info["dynsym"]: symsz, info["symtab"]: symsz, info["rela"]: 3 * aw, info["rel"]: 2 * aw}.get(t, 8)
        seth(t, "sh_entsize", rng.choice([0, 1, 2, rec - 1, rec + 1, 2 * rec, 1 << 31, (1 << 32) - 1, 1 << 32, (1 << (8 * aw)) - 1]))
        return bytes(b), "entsize"
    if kind == "link":
        t = rng.choice([info[k] for k in ("dynsym", "symtab", "rela", "rel", "need", "vdef", "gnu", "hash", "dynamic", "versym")])
        ns = im.nsec
        seth(t, "sh_link", rng.choice([0, ns, ns + 1, 0xffff, 0x10000 + rng.randrange(ns), (1 << 32) - 1, t, rng.randrange(ns),
                                       info["gnu"], info["rela"], info["arr"], info["shstr"]]))
        return bytes(b), "link"
    if kind == "type":
        t = rng.choice(tables)
        seth(t, "sh_type", rng.choice([SHT_REL, SHT_RELA, SHT_HASH, SHT_GNU_HASH, DT_GNU_HASH_AS_TYPE, SHT_SYMTAB, SHT_DYNSYM, 8, 0,
                                       SHT_STRTAB, SHT_DYNAMIC]))
        return bytes(b), "type"
    if kind == "sysv":
        h = info["hash"]
        nw = len(im.secs[h]["data"]) // 4
        nb, nc = min(word(h, 0), nw), min(word(h, 1), nw)      # (an earlier corruption may have changed them)
        what = rng.choice(["nbucket0", "nbucket-huge", "nchain0", "nchain-huge", "bucket-oob", "cycle1", "cycle2", "chain-oob", "bucket-first"])
        if what == "nbucket0": word(h, 0, 0)
        elif what == "nbucket-huge": word(h, 0, rng.choice([nb + 1, nb + nc + 1, 1 << 31, (1 << 32) - 1, L]))
        elif what == "nchain0": word(h, 1, 0)
        elif what == "nchain-huge": word(h, 1, rng.choice([nc + 1, 1 << 31, (1 << 32) - 1, (1 << 32) - 2 - nb, L]))
        elif what == "bucket-oob":
            for k in range(nb): word(h, 2 + k, rng.choice([nc, nc + 1, 1 << 31, (1 << 32) - 1, L]))
        elif what == "cycle1":
            for k in range(1, nc): word(h, 2 + nb + k, k)
        elif what == "cycle2":
            for k in range(1, nc): word(h, 2 + nb + k, 1 + (k % max(nc - 1, 1)))
            word(h, 1, nc)
        elif what == "chain-oob":
            for k in range(1, nc): word(h, 2 + nb + k, rng.choice([nc, 1 << 31, (1 << 32) - 1]))
            if rng.random() < 0.5: word(h, 1, (1 << 32) - 1)
        else:
            for k in range(nb): word(h, 2 + k, rng.randrange(0, nc + 2))
        return bytes(b), "sysv:" + what
    if kind == "gnu":
        g = info["gnu"]
        nw = len(im.secs[g]["data"]) // 4
        nb, so, bs, sh = min(word(g, 0), nw), word(g, 1), min(word(g, 2), nw), word(g, 3)
        C = 4 if cls == 32 else 8
        bo = 4 + bs * (C // 4)        # first bucket word
        what = rng.choice(["nbuckets0", "bloom0", "nbuckets-huge", "bloom-huge", "symoffset", "shift", "bucket-oob", "no-end", "bloom-all"])
        if what == "nbuckets0": word(g, 0, 0)
        elif what == "bloom0": word(g, 2, 0)
        elif what == "nbuckets-huge": word(g, 0, rng.choice([nb + 1, 1 << 30, 1 << 31, (1 << 32) - 1, L]))
        elif what == "bloom-huge": word(g, 2, rng.choice([bs + 1, 1 << 29, 1 << 30, 1 << 31, (1 << 32) - 1, L]))
        elif what == "symoffset": word(g, 1, rng.choice([0, 1, so + 1, 1 << 31, (1 << 32) - 1]))
        elif what == "shift": word(g, 3, rng.choice([32, 33, 63, 64, 255, (1 << 32) - 1]))
        elif what == "bucket-oob":
            for k in range(nb): word(g, bo + k, rng.choice([so + 100, 1 << 31, (1 << 32) - 1, L]))
        elif what == "no-end":
            n = (len(im.secs[g]["data"]) // 4) - bo - nb
            for k in range(max(n, 0)): word(g, bo + nb + k, word(g, bo + nb + k) & ~1)
        if what in ("bloom-all", "no-end", "bucket-oob", "nbuckets-huge", "symoffset", "nbuckets0") or rng.random() < 0.5:
            for k in range(4, min(bo, nw)): word(g, k, 0xffffffff)     # let every name pass the bloom filter
        return bytes(b), "gnu:" + what
    if kind in ("need", "vdef"):
        t = info[kind]
        sz = len(im.secs[t]["data"])
        if kind == "need":
            fields = {"vn_file": 4, "vn_aux": 8, "vn_next": 12, "vna_name": 16 + 8, "vna_next": 16 + 12}
        else:
            fields = {"vd_aux": 12, "vd_next": 16, "vda_name": 20, "vda_next": 24}
        f = rng.choice(sorted(fields))
        bad = rng.choice([0, 1, sz - 1, sz, sz + 1, sz - 4, sz - 15, L, 1 << 31, (1 << 32) - 1, (1 << 32) - 16])
        o = im.data_off[t] + fields[f]
        b[o:o + 4] = P(bad, 4, enc)
        return bytes(b), kind + ":" + f
    if kind == "dynnum":
        d = info["dynamic"]
        k = rng.choice([1, 2])
        o = im.data_off[d] + k * 2 * aw + aw
        b[o:o + aw] = P(rng.choice([0, 1, 2, 3, 4, 100, 1 << 16, (1 << 32) - 1, 1 << 32]), aw, enc)
        return bytes(b), "dynnum"
    # symname: name offsets of symbols outside the string table / string table without terminator
    t = rng.choice([info["dynsym"], info["symtab"]])
    n = len(im.secs[t]["data"]) // symsz
    for k in range(n):
        if rng.random() < 0.5:
            o = im.data_off[t] + k * symsz
            b[o:o + 4] = P(rng.choice([len(im.secs[im.secs[t]["sh_link"]]["data"]) - 1, 1 << 31, (1 << 32) - 1, L, 2]), 4, enc)
    st = im.secs[t]["sh_link"]
    if rng.random() < 0.5:
        o = im.data_off[st] + len(im.secs[st]["data"]) - 1
        b[o] = 0x41
    return bytes(b), "symname"


# ------------------------------------------------------------------ cases

def table_sections(img):
    """[(index, sh_type, sh_link)] of the image per its section header table (independent reading)"""
    d = None
    try:
        d = elfspec.decode(img)
    except Exception:
        d = None
    if not d:
        return []
    return [(i, s["sh_type"], s["sh_link"]) for i, s in enumerate(d["sections"])]


def query_lines(rng, img, names, max_ops=40):
    """the table ops for every typed section of the image (by the type its header declares), plus a few ops on
    sections of the 'wrong' type"""
    L = []
    secs = table_sections(img)[:64]
    nm = [n for n in names if n] or [b"main"]
    for i, ty, link in secs:
        ops = []
        if ty in (SHT_REL, SHT_RELA):
            ops += [f"rel {i}", f"swap {i} {rng.choice([0, 0, 1, 2])} {rng.choice([1, 2, 3, 4294967295])}"]
        if ty in (SHT_SYMTAB, SHT_DYNSYM):
            cand = [rng.choice(nm), rng.choice(nm), b"no_such_symbol", b""]
            ops += [f"symname {i} {hx(n)}" for n in rng.sample(cand, 3)]
            ops += [f"symvalue {i} {v}" for v in rng.sample([0, 0x1000, 0x2000, 0x2008, 0x1010, (1 << 64) - 1], 2)]
            ops += [f"arrange {i}"]
        if ty == SHT_INIT_ARRAY or ty == 15 or ty == 16:
            ops += [f"arr32 {i}", f"arr64 {i}"]
        if ty == SHT_GNU_versym:
            ops += [f"versym {i}"]
        if ty == SHT_GNU_verneed:
            ops += [f"verneed {i}"]
        if ty == SHT_GNU_verdef:
            ops += [f"verdef {i}"]
        if ty in (SHT_HASH, SHT_GNU_HASH, DT_GNU_HASH_AS_TYPE):
            # the table this hash section serves: lookups go through it
            ops += [f"symname {link % 65536} {hx(n)}" for n in [rng.choice(nm), b"absent_name"]]
        if not ops and rng.random() < 0.15:
            ops += [rng.choice([f"rel {i}", f"symname {i} {hx(rng.choice(nm))}", f"arr32 {i}", f"versym {i}", f"verneed {i}",
                                f"verdef {i}", f"arrange {i}", f"symvalue {i} 0"])]
        L += ops
    if len(L) > max_ops:
        L = rng.sample(L, max_ops)
    is_mut = lambda l: l.startswith("arrange") or l.startswith("swap")
    mode = rng.choice(["tail", "tail", "mixed"])
    if mode == "tail":
        # read-only queries first, then the mutating ones, then queries on the sections they wrote to
        L.sort(key=is_mut)
    else:
        # mutating and read-only queries freely interleaved
        rng.shuffle(L)
    L += after_mutation_lines(rng, secs, [l for l in L if is_mut(l)], nm)
    k = len(secs)
    L += [rng.choice([f"rel {k}", f"versym {k + 1}", f"symname 65535 {hx(b'x')}"])]
    return L


def after_mutation_lines(rng, secs, muts, nm, max_post=14):
    """queries on the SAME object after arrange / swap: on every section a mutating op wrote to (the arranged symbol
    section, the relocation sections its callback rewrote, the swapped relocation section) the read-only queries
    again (by name through the - now stale - hash tables, by value, relocation entries with and without symbol
    resolution, versym), a second arrange / swap, and a query after that"""
    post = []
    for m in muts:
        t = m.split()
        i = int(t[1])
        if t[0] == "arrange":
            post += [f"symname {i} {hx(n)}" for n in [rng.choice(nm), b"no_such_symbol"]]
            post += [f"symvalue {i} {rng.choice([0, 0x1000, 0x2000, 0x2008])}"]
            for j, ty, link in secs:
                if j != i and link % 65536 == i:
                    if ty in (SHT_REL, SHT_RELA):
                        post += [f"rel {j}", f"swap {j} {rng.choice([0, 1, 2])} {rng.choice([1, 2, 3])}", f"rel {j}"]
                    elif ty == SHT_GNU_versym:
                        post += [f"versym {j}"]
            post += [f"arrange {i}", f"symname {i} {hx(rng.choice(nm))}"]
        else:
            post += [f"rel {i}"]
            link = next((lk for j, ty, lk in secs if j == i), 0) % 65536
            if any(j == link and ty in (SHT_SYMTAB, SHT_DYNSYM) for j, ty, lk in secs):
                post += [f"arrange {link}", f"rel {i}", f"symvalue {link} 0"]
    if len(post) > max_post:
        # keep the order (a query after its mutation), drop a random subset
        keep = sorted(rng.sample(range(len(post)), max_post))
        post = [post[x] for x in keep]
    return post


def mk_case(cid, img, lazy, kind, ops, meta):
    lines = [f"alarm {TIMEOUT_S}", f"load {hx(img)} lazy={lazy} kind={kind}"] + ops
    m = {"img_len": len(img)}; m.update(meta)
    return {"id": cid, "lines": lines, "meta": m}


EX_TABLES = ["libfunc.so", "libfunc32.so", "main", "main32", "test_ppc", "libversion_d.so", "hello_64", "hello_32", "hello_64.o",
             "hello_32.o", "test_ppc.o", "write_exe_i386_32_work", "ppc-32bit-specimen.elf", "arm_v7m_test_debug.elf",
             "x86_64_static", "elf_dummy_header_i386_32.elf", "startup.o", "asm64.o", "asm.o"]


def example_names(b):
    out = []
    try:
        d = elfspec.decode(b)
        for s in d["sections"]:
            if s["sh_type"] == SHT_STRTAB and s["data"]:
                out += [x for x in s["data"].split(b"\0") if 0 < len(x) < 40][:40]
    except Exception:
        pass
    return out[:200] or [b"main"]


def gen_cases(rng, tier):
    quick = tier == "quick"
    n_clean = 8 if quick else 40
    n_corr = 260 if quick else 2600
    n_mut = 60 if quick else 600
    for i in range(n_clean):
        cls, enc = CFGS[i % 4]
        img, im, info = typed_image(rng, cls, enc)
        names = info["dyn_names"] + info["sym_names"]
        yield mk_case(f"clean{i}", img, i // 4 % 2, "str", query_lines(rng, img, names, 60), {"kind": "clean"})
    for i in range(n_corr):
        cls, enc = CFGS[i % 4]
        img, im, info = typed_image(rng, cls, enc)
        names = info["dyn_names"] + info["sym_names"]
        labels = []
        for _ in range(rng.choice([1, 1, 1, 2, 3])):
            img, lab = corrupt(rng, img, im, info)
            labels.append(lab)
        yield mk_case(f"corr{i}", img, rng.choice([0, 1]), rng.choice(["str", "str", "file"]),
                      query_lines(rng, img, names), {"kind": "corrupt", "labels": labels})
    for i in range(n_mut):
        cls, enc = CFGS[i % 4]
        img, im, info = typed_image(rng, cls, enc)
        names = info["dyn_names"] + info["sym_names"]
        if rng.random() < 0.5:
            img, _ = corrupt(rng, img, im, info)
        img = elfspec.mutate(rng, img)
        yield mk_case(f"mut{i}", img, rng.choice([0, 1]), "str", query_lines(rng, img, names), {"kind": "mutated"})
    # bundled examples with such tables, as they are and mutated
    exs = [(f, b) for f, b in examples(200000) if f in EX_TABLES]
    for f, b in exs:
        names = example_names(b)
        if len(b) <= (40000 if quick else 200000):
            yield mk_case(f"ex-{f}", b, 0, "str", query_lines(rng, b, names, 30), {"kind": "example"})
    small = [(f, b) for f, b in exs if len(b) <= 20000]
    for i in range(12 if quick else 150):
        if not small:
            break
        f, b = rng.choice(small)
        m = elfspec.mutate(rng, b)
        yield mk_case(f"exmut{i}-{f}", m, rng.choice([0, 1]), "str", query_lines(rng, m, example_names(b), 16), {"kind": "example-mutated"})


# ------------------------------------------------------------------ oracle

def oracle(case, out):
    v = []
    lines = case["lines"]
    for i, o in enumerate(out):
        if o.startswith("FAULT"):
            ln = lines[min(i, len(lines) - 1)]
            op = ln.split()[0]
            t = o.split()
            what = t[1] if len(t) > 1 else "?"
            frame = t[2] if len(t) > 2 else ""
            kind = what.split(":")[-1] if what.startswith("asan:") else what.split(":")[0] if what.startswith("ubsan") else what
            v.append({"signature": f"fault:{op}:{frame.split(':')[0] or '-'}:{kind}",
                      "what": f"{o} during `{ln[:60]}` (input {case['meta'].get('img_len', '?')} bytes)"})
            return v
    return v


TABLE_OPS = ("rel", "symname", "symvalue", "arr32", "arr64", "versym", "verneed", "verdef", "arrange", "swap")


def nontrivial(case, out):
    if len(out) < 2 or not out[1].startswith("load=true"):
        return False
    return any(o.split()[0] in TABLE_OPS and (":true" in o or o.startswith("symname true") or o.startswith("symvalue true")
                                              or o.startswith("arrange")) for o in out[2:] if o)


def classify(case, out):
    ks = [case["meta"].get("kind", "?")]
    ks += [l for l in case["meta"].get("labels", [])]
    if len(out) >= 2:
        ks.append("loaded" if out[1].startswith("load=true") else "rejected")
    for o in out[2:]:
        w = o.split()[0] if o else ""
        if w in TABLE_OPS:
            ks.append("op:" + w)
    ks.append("lazy" if " lazy=1" in case["lines"][1] else "eager")
    # read-only table queries that ran (and returned) AFTER a mutating one on the same object
    seen = set()
    for ln, o in zip(case["lines"][2:], out[2:]):
        w = ln.split()[0]
        if not o or o.startswith("FAULT") or o == "null":
            continue
        if w in ("arrange", "swap"):
            if seen:
                ks.append("seq:mutation-after-mutation")
            seen.add(w)
        elif w in TABLE_OPS:
            ks += ["seq:query-after-" + m for m in seen]
    return sorted(set(ks))
