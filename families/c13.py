"""C13 — notes round-trip with ABI encoding; out-of-range indices are refused.

Model: lean/ElfioVerif/Model/Note.lean — `Note.process` (the constructor's walker, fuel + sufficiency
lemma), `Note.get` (get_note: index gate, checked `note_start_positions[index]` = Fault.vecOob, checked
buffer reads incl. the caller's read of descSize bytes at the returned pointer), `Note.add` (add_note:
encodeBuf + section::append_data(std::string) of Model/SecBuf).  Generic in the source `NoteSrc` =
(get_data(), size getter), so the same functions model `note_section_accessor` (section::get_size) and
`note_segment_accessor` (segment::get_file_size).  Every guard / offset / padding is the generated
expression of Gen/SitesC13.lean (gen/sites.d/c13.json, 30 sites); fields go through rdField/wrField.
The model is the code after fixes/03 (index gate on the number of notes, F3) and fixes/04 (64-bit
`advance`, F12).  Spec: lean/ElfioVerif/Spec/Note.lean (`encodeNote(s)`, `noteStarts`, `decodeNote`),
written from the gABI text.

PROVED (lean/ElfioVerif/Props/C13.lean; all note sequences, all 32-bit indices, both byte orders):
  encodeBuf_spec     the buffer add_note builds = Spec.encodeNote: namesz incl. terminator, descsz, type,
                     name+NUL padded to 4, descriptor padded to 4 (null descriptor allowed when empty)
  note_bytes         ANY sequence of add_note on a reachable SHT_NOTE section: no fault, section content =
                     old content ++ Spec.encodeNotes, recorded positions = note starts (invariant AccOk)
  add_roundtrip      a consistent accessor (e.g. after note_bytes) returns note k for every k < count, false
                     for every index >= count, and get_notes_num = count — positions recorded by add_note
  walker_positions   on a source whose bytes are Spec.encodeNotes the constructor succeeds and its positions
                     are exactly the note starts
  note_roundtrip     ... and get k returns type, name, descriptor of the k-th note (names 0..n bytes,
                     descriptors of every length/residue; empty descriptor = null pointer, size 0)
  get_note_absent    EVERY 32-bit index >= count: returns false, touches nothing — any source, any positions
  get_note_total     ANY source content (not only well-formed notes) with size <= allocation: constructor
                     succeeds and get_note with ANY 32-bit index returns without a fault (reused by C01)
  walk_fuel, process_total   the walker's fuel size/12+1 never runs out, no read outside [0,size); every
                     recorded position was checked (size < 2^63)
  secbuf_src_ok, segSrc_ok, getData_inv, fresh_accOk   reachable sections (SecBuf.Inv of C07: fresh, eagerly /
                     lazily loaded, edited) and loaded PT_NOTE segments are such sources
  advance_wrap_witness, note_index_witness   F12 and F3 on the unfixed expressions (decide)
  namesz_round_wrap_witness                   why the size hypothesis remains after fix 04
HYPOTHESES: size <= 2^32-3 for walker_positions / note_roundtrip / get_note_total / note_bytes (after fix 04
the 32-bit `namesz + align - 1` is the next wrap; witness above); note fields fit 32-bit words (Note.Fits).
COVERED BY CORRESPONDENCE + ORACLE ONLY (not proved): "after save and reload" and "a note segment covering the
section" end to end — the driver abstracts writer+loader as "the reloaded section and its PT_NOTE segment hold
exactly the saved section bytes" (Driver/C13 attach, Note.segSrc); every reload case checks this against the
real save()/load(), eager and lazy.  The ELF class enters only through section::set_size (C07's Bound).
"""
import struct

PROPERTY = "C13"
FAMILY = "c13"
LEAN_MODULE = "ElfioVerif.Props.C13"
THEOREMS = ["ElfioVerif.C13." + t for t in (
    "encodeBuf_spec", "note_bytes", "add_roundtrip", "walker_positions", "note_roundtrip", "get_note_absent",
    "get_note_total", "walk_fuel", "process_total", "secbuf_src_ok", "segSrc_ok", "getData_inv", "fresh_accOk",
    "advance_wrap_witness", "note_index_witness", "namesz_round_wrap_witness")]
SITES = ["note_", "sec32_append_str_len", "sec64_append_str_len", "sec32_insert", "sec64_insert"]
RULE = ("sequences of 0-12 add_note (names 0-20 bytes incl. embedded NULs, descriptors 0-64 bytes, all residues "
        "mod 4, null descriptor pointer) interleaved with get_note at indices 0..count-1, count, count+1, size-1, "
        "size, size+1, 2^31, 2^32-1 and random 32-bit values; reacc (fresh accessor), save+reload eager/lazy, "
        "queries through the section accessor and the PT_NOTE segment accessor; raw note sections (valid, "
        "truncated, corrupted namesz/descsz incl. 0x7FFFFFF8/0x7FFFFFFC/0xFFFFFFFF, random bytes); "
        "x{ELF32,ELF64}x{LSB,MSB}. thorough adds all single notes with name/descriptor lengths 0..9 and all "
        "pairs with lengths 0..4. non-trivial = at least one get_note returned a note; distinct by md5 of the "
        "case text")
ASSUMPTIONS = ["sections stay below 2^32-3 bytes (explicit hypothesis of walker_positions/note_roundtrip/"
               "get_note_total; after fix 04 the 32-bit `namesz + align - 1` is the next wrap)",
               "new(nothrow) succeeds for the sizes generated",
               "add_note is given a descriptor pointer valid for descSize bytes (or null with size 0)"]
TRUSTED = ["Driver/C13 `attach`/`reload`: a reloaded note section and its PT_NOTE segment hold exactly the saved "
           "section bytes (loader/writer abstraction; exercised against the real save/load by every reload case)",
           "Note.segSrc abstracts segment_impl::load_data (filesz+1 bytes, NUL terminated; nothing for filesz 0)"]
KEEP_FIRST = 1
U32 = 0xFFFFFFFF


def hx(b):
    return b.hex() if b else "-"


def unhx(s):
    return b"" if s == "-" else bytes.fromhex(s)


def pad4(b):
    return b + b"\0" * (-len(b) % 4)


def enc_note(msb, ty, name, desc):
    e = ">" if msb else "<"
    return struct.pack(e + "III", (len(name) + 1) & U32, len(desc) & U32, ty & U32) + pad4(name + b"\0") + pad4(desc)


def dec_notes(msb, data):
    """ABI reading of a note section: [(start, type, namesz, name-without-terminator, desc)], stops at the
    first entry that does not fit."""
    e = ">" if msb else "<"
    out = []; pos = 0
    while pos + 12 <= len(data):
        nsz, dsz, ty = struct.unpack_from(e + "III", data, pos)
        adv = 12 + (nsz + 3) // 4 * 4 + (dsz + 3) // 4 * 4
        if pos + adv > len(data):
            break
        nm = data[pos + 12: pos + 12 + max(nsz - 1, 0)]
        ds = data[pos + 12 + (nsz + 3) // 4 * 4: pos + 12 + (nsz + 3) // 4 * 4 + dsz]
        out.append((pos, ty, nsz, nm, ds))
        pos += adv
    return out


# ------------------------------------------------------------------ generator

def rand_name(rng):
    k = rng.random()
    n = 0 if k < 0.12 else rng.randint(1, 20)
    if rng.random() < 0.8:
        return bytes(rng.choice(b"GNUCORELinuxabcXYZ0123._") for _ in range(n))
    return bytes(rng.randrange(256) for _ in range(n))


def rand_desc(rng):
    k = rng.random()
    if k < 0.15: n = 0
    elif k < 0.75: n = rng.randint(1, 20)
    else: n = rng.randint(21, 64)
    return bytes(rng.randrange(256) for _ in range(n))


def rand_type(rng):
    return rng.choice([0, 1, 2, 3, 4, 5, 0x100, 0x7fffffff, 0x80000000, U32, rng.randrange(1 << 32)])


def probes(rng, count, size, k=4):
    cand = [count, count + 1, size - 1, size, size + 1, 1 << 31, U32, rng.randrange(1 << 32), count + 2,
            max(size - 2, 0), 12, 20]
    cand = [c & U32 for c in cand if c >= 0]
    out = list(range(count)) if count <= 3 else rng.sample(range(count), 3)
    out += rng.sample(cand, min(k, len(cand)))
    rng.shuffle(out)
    return out


def add_line(rng, ty, name, desc):
    nul = " null=1" if (not desc and rng.random() < 0.5) else ""
    return f"add type={ty} name={hx(name)} desc={hx(desc)}{nul}"


def gen_history(rng, i):
    cls = rng.choice([32, 64]); enc = rng.choice(["lsb", "msb"]); seg = rng.choice([0, 1, 1])
    lines = [f"new cls={cls} enc={enc} seg={seg}"]
    count = 0; size = 0
    n = rng.choice([0, 1, 1, 2, 3, 5, 8, 12]) if rng.random() < 0.5 else rng.randint(0, 12)
    for _ in range(n):
        ty, nm, ds = rand_type(rng), rand_name(rng), rand_desc(rng)
        lines.append(add_line(rng, ty, nm, ds)); count += 1; size += len(enc_note(enc == "msb", ty, nm, ds))
        if rng.random() < 0.35:
            lines += [f"get i={p}" for p in probes(rng, count, size, 2)]
        if rng.random() < 0.08:
            lines.append("reacc")
    lines += [f"get i={p}" for p in probes(rng, count, size)]
    if rng.random() < 0.3:
        lines += ["reacc"] + [f"get i={p}" for p in probes(rng, count, size, 3)]
    if rng.random() < 0.75:
        lines.append(f"reload lazy={rng.choice([0, 1])}")
        lines += [f"get i={p}" for p in probes(rng, count, size)]
        if seg:
            lines += [f"gets i={p}" for p in probes(rng, count, size)]
            lines.append("nums")
        # (an empty section at the end of a segment is not a member after reload: later notes would not be
        #  covered by the segment any more, which is outside the statement)
        if rng.random() < 0.4 and not (seg and count == 0):
            for _ in range(rng.randint(1, 3)):
                ty, nm, ds = rand_type(rng), rand_name(rng), rand_desc(rng)
                lines.append(add_line(rng, ty, nm, ds)); count += 1; size += len(enc_note(enc == "msb", ty, nm, ds))
            lines += [f"get i={p}" for p in probes(rng, count, size)]
            if rng.random() < 0.5:
                lines.append(f"reload lazy={rng.choice([0, 1])}")
                lines += [f"get i={p}" for p in probes(rng, count, size, 3)]
                if seg:
                    lines += [f"gets i={p}" for p in probes(rng, count, size, 3)]
    return {"id": f"h{i}", "lines": lines, "meta": {}}


BIG = [0, 1, 3, 4, 5, 0x10, 0x7FFFFFF8, 0x7FFFFFFC, 0x80000000, 0xFFFFFFF4, 0xFFFFFFFC, 0xFFFFFFFD, U32]


def gen_raw(rng, i):
    cls = rng.choice([32, 64]); enc = rng.choice(["lsb", "msb"]); msb = enc == "msb"
    e = ">" if msb else "<"
    data = b"".join(enc_note(msb, rand_type(rng), rand_name(rng), rand_desc(rng)) for _ in range(rng.randint(0, 5)))
    k = rng.random()
    if k < 0.12:
        pass
    elif k < 0.2:
        # header-only notes (namesz = descsz = 0: exactly 12 bytes), also as the very last note
        parts = [enc_note(msb, rand_type(rng), rand_name(rng), rand_desc(rng)) for _ in range(rng.randint(0, 2))]
        parts += [struct.pack(e + "III", 0, 0, rand_type(rng)) for _ in range(rng.randint(1, 3))]
        if rng.random() < 0.5: rng.shuffle(parts)
        data = b"".join(parts)
    elif k < 0.4 and data:
        data = data[:rng.randrange(len(data))]
    elif k < 0.75 and len(data) >= 12:
        b = bytearray(data)
        for _ in range(rng.randint(1, 2)):
            starts = [s for s, *_ in dec_notes(msb, bytes(b))] or [0]
            at = rng.choice(starts) + rng.choice([0, 4])
            v = rng.choice(BIG) if rng.random() < 0.7 else rng.randrange(0, len(b) + 8)
            b[at:at + 4] = struct.pack(e + "I", v)
        data = bytes(b)
    elif k < 0.9:
        data = bytes(rng.randrange(256) for _ in range(rng.randint(0, 40)))
    else:
        data = struct.pack(e + "III", rng.choice(BIG), rng.choice(BIG), 1) + bytes(rng.randint(0, 24))
    seg = rng.choice([0, 1])
    lines = [f"loadsec cls={cls} enc={enc} lazy={rng.choice([0, 1])} seg={seg} data={hx(data)}"]
    cnt = len(dec_notes(msb, data))
    ps = probes(rng, cnt, len(data), 5)
    lines += [f"get i={p}" for p in ps]
    if seg:
        lines += [f"gets i={p}" for p in probes(rng, cnt, len(data), 4)]
    if rng.random() < 0.3 and sum(12 + (n + 3) // 4 * 4 + (len(d) + 3) // 4 * 4 for _, _, n, _, d in dec_notes(msb, data)) == len(data):
        ty, nm, ds = rand_type(rng), rand_name(rng), rand_desc(rng)
        lines.append(add_line(rng, ty, nm, ds))
        lines += [f"get i={p}" for p in (cnt, cnt + 1, 0)]
    return {"id": f"w{i}", "lines": lines, "meta": {}}


def gen_cases(rng, tier):
    nh, nr = (500, 300) if tier == "quick" else (5000, 3000)
    for i in range(nh):
        yield gen_history(rng, i)
    for i in range(nr):
        yield gen_raw(rng, i)
    # exhaustive small scopes: every name/descriptor length residue, both byte orders and classes
    L = 5 if tier == "quick" else 9
    k = 0
    for cls, enc in ((32, "lsb"), (32, "msb"), (64, "lsb"), (64, "msb")):
        for nl in range(L + 1):
            for dl in range(L + 1):
                nm = bytes(65 + j for j in range(nl)); ds = bytes(0xa0 + j for j in range(dl))
                sz = len(enc_note(False, 1, nm, ds))
                lines = [f"new cls={cls} enc={enc} seg=1", f"add type={nl * 16 + dl} name={hx(nm)} desc={hx(ds)}",
                         "get i=0", "get i=1", "get i=2", f"get i={sz - 1}", f"get i={sz}", f"get i={U32}",
                         "reload lazy=1", "get i=0", "gets i=0", "get i=1", "gets i=1", f"gets i={sz - 1}", f"gets i={sz}"]
                yield {"id": f"x{k}", "lines": lines, "meta": {"exhaustive": True}}; k += 1
    for cls, enc in ((32, "lsb"), (32, "msb"), (64, "lsb"), (64, "msb")):
        hdr = struct.pack((">" if enc == "msb" else "<") + "III", 0, 0, 7)
        one = enc_note(enc == "msb", 1, b"GNU", b"\1\2\3\4")
        for data in (hdr, hdr + hdr, one + hdr, one, one[:-1], one + hdr[:-1], hdr + one):
            lines = [f"loadsec cls={cls} enc={enc} lazy=0 seg=1 data={hx(data)}"] + \
                    [f"{g} i={i}" for i in (0, 1, 2, 3, len(data) - 1, len(data)) for g in ("get", "gets")]
            yield {"id": f"z{k}", "lines": lines, "meta": {"exhaustive": True}}; k += 1
    if tier != "quick":
        for enc in ("lsb", "msb"):
            for a in range(5):
                for b in range(5):
                    for c in range(5):
                        for d in range(5):
                            lines = ["new cls=64 enc=%s seg=1" % enc,
                                     f"add type=1 name={hx(bytes(range(1, a + 1)))} desc={hx(bytes(range(b)))}",
                                     f"add type=2 name={hx(bytes(range(1, c + 1)))} desc={hx(bytes(range(d)))}",
                                     "get i=0", "get i=1", "get i=2", "get i=3", "reload lazy=0",
                                     "get i=1", "gets i=1", "gets i=0", "gets i=2"]
                            yield {"id": f"y{k}", "lines": lines, "meta": {"exhaustive": True}}; k += 1


# ------------------------------------------------------------------ oracle

def kvs(line):
    return dict(x.split("=", 1) for x in line.split()[1:] if "=" in x)


def simulate(case):
    """Independent reference run: for every input line the expectation
    ('num', n) | ('add', n, size, hex) | ('get', None | (type, namehex, deschex|null, dsz) | 'any', label)
    | ('reload', n, segn|'-', size, hex) | ('load', n, segn|'-')"""
    exp = []
    msb = False; seg = False
    notes = []          # [(type, namesz, name, desc)] visible through the section accessor
    snotes = None       # same through the segment accessor (fixed at load time)
    data = b""

    def from_bytes(d):
        return [(ty, nsz, nm, ds) for _, ty, nsz, nm, ds in dec_notes(msb, d)]

    def get_exp(ns, i, size):
        cnt = len(ns)
        lab = ("valid" if i < cnt else "count" if i == cnt else "count+1" if i == cnt + 1 else
               "size-1" if i == size - 1 else "size" if i == size else "max" if i == U32 else "absent-other")
        if i >= cnt:
            return ("get", None, lab)
        ty, nsz, nm, ds = ns[i]
        if nsz == 0:
            return ("get", "any", "valid-namesz0")   # ABI allows an empty name field; ELFIO answers false
        return ("get", (ty, hx(nm), hx(ds) if ds else "null", len(ds)), lab)

    for ln in case["lines"]:
        op = ln.split()[0]; kv = kvs(ln)
        if op == "new":
            msb = kv.get("enc") == "msb"; seg = kv.get("seg") == "1"
            notes = []; snotes = None; data = b""
            exp.append(("num", 0))
        elif op == "loadsec":
            msb = kv.get("enc") == "msb"; seg = kv.get("seg") == "1"
            data = unhx(kv.get("data", "-"))
            notes = from_bytes(data); snotes = list(notes) if seg else None
            exp.append(("load", len(notes), len(snotes) if seg else "-"))
        elif op == "add":
            nm = unhx(kv["name"]); ds = unhx(kv["desc"]); ty = int(kv["type"])
            data += enc_note(msb, ty, nm, ds)
            notes.append((ty, len(nm) + 1, nm, ds))
            exp.append(("add", len(notes), len(data), hx(data)))
        elif op == "get":
            exp.append(get_exp(notes, int(kv["i"]), len(data)))
        elif op == "gets":
            exp.append(get_exp(snotes, int(kv["i"]), len(data)) if snotes is not None else ("skip",))
        elif op == "num":
            exp.append(("num", len(notes)))
        elif op == "nums":
            exp.append(("num", len(snotes)) if snotes is not None else ("skip",))
        elif op == "reacc":
            notes = from_bytes(data)
            exp.append(("num", len(notes)))
        elif op == "reload":
            notes = from_bytes(data); snotes = list(notes) if seg else None
            exp.append(("reload", len(notes), len(snotes) if seg else "-", len(data), hx(data)))
        else:
            exp.append(("skip",))
    return exp


def oracle(case, out):
    v = []
    exp = simulate(case)
    for i, e in enumerate(exp):
        if i >= len(out):
            break
        o = out[i]; ln = case["lines"][i]; op = ln.split()[0]
        if o.startswith("FAULT"):
            v.append({"signature": "fault:" + op, "what": f"memory fault / abort during `{ln[:70]}`: {o}"})
            return v
        if o.startswith("bad-op") or e[0] == "skip":
            if e[0] != "skip":
                v.append({"signature": "harness:" + op, "what": f"`{ln[:70]}` -> {o}"})
                return v
            continue
        f = dict(x.split("=", 1) for x in o.split() if "=" in x)
        if e[0] == "num":
            if f.get("num") != str(e[1]):
                v.append({"signature": "count-mismatch:" + op, "what": f"`{ln[:60]}` -> {o}, expected num={e[1]}"}); return v
        elif e[0] == "load":
            if f.get("num") != str(e[1]) or f.get("segnum") != str(e[2]):
                v.append({"signature": "count-mismatch:load", "what": f"`{ln[:80]}` -> {o}, expected num={e[1]} segnum={e[2]}"}); return v
        elif e[0] == "add":
            if f.get("num") != str(e[1]):
                v.append({"signature": "count-mismatch:add", "what": f"`{ln[:60]}` -> {o[:60]}, expected num={e[1]}"}); return v
            if f.get("size") != str(e[2]) or f.get("data") != e[3]:
                v.append({"signature": "encoding-mismatch", "what": f"after `{ln[:70]}` section is size={f.get('size')} "
                          f"data={f.get('data', '')[-80:]}, ABI encoding is size={e[2]} data=...{e[3][-80:]}"}); return v
        elif e[0] == "reload":
            if f.get("num") != str(e[1]) or f.get("segnum") != str(e[2]):
                v.append({"signature": "count-mismatch:reload", "what": f"after reload {o[:50]}, expected num={e[1]} segnum={e[2]}"}); return v
            if f.get("size") != str(e[3]) or f.get("data") != e[4]:
                v.append({"signature": "reload-mismatch", "what": f"reloaded section differs: size={f.get('size')} expected {e[3]}"}); return v
        elif e[0] == "get":
            if e[1] is None:
                if o != "false":
                    v.append({"signature": f"absent-not-false:{op}", "what": f"`{ln}` (no such note, {e[2]}) -> {o[:80]}"}); return v
            elif e[1] == "any":
                pass
            else:
                ty, nm, ds, dsz = e[1]
                if o == "false" or f.get("type") != str(ty) or f.get("name") != nm or f.get("desc") != ds or f.get("dsz") != str(dsz):
                    v.append({"signature": f"roundtrip-mismatch:{op}", "what": f"`{ln}` -> {o[:100]}, expected type={ty} name={nm} desc={ds[:40]} dsz={dsz}"}); return v
    if len(out) > len(exp) and out[len(exp)].startswith("FAULT"):
        v.append({"signature": "fault:end", "what": out[len(exp)]})
    return v


def nontrivial(case, out):
    return any(o.startswith("type=") for o in out)


def classify(case, out):
    l0 = case["lines"][0].split()
    kv = kvs(case["lines"][0])
    ks = [l0[0], f"cfg:{kv.get('cls')}{kv.get('enc')}", "seg" if kv.get("seg") == "1" else "noseg"]
    try:
        exp = simulate(case)
    except Exception:
        exp = []
    for ln, e in zip(case["lines"][1:], exp[1:]):
        op = ln.split()[0]
        if e[0] == "get":
            ks.append(f"{op}:{e[2]}")
        else:
            ks.append("op:" + op + (":lazy" if "lazy=1" in ln else ""))
        if op == "add":
            k = kvs(ln)
            ks.append(f"name%4={(len(unhx(k['name'])) + 1) % 4}"); ks.append(f"desc%4={len(unhx(k['desc'])) % 4}")
            if not unhx(k["name"]): ks.append("name-empty")
            if not unhx(k["desc"]): ks.append("desc-empty")
    adds = sum(1 for l in case["lines"] if l.startswith("add"))
    ks.append(f"notes={adds if adds < 4 else '4-7' if adds < 8 else '8-12'}")
    if any(o.startswith("FAULT") for o in out): ks.append("fault")
    return ks
