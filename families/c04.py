"""C04 — saved files are structurally well-formed and loadable.

Proof (Props/C04.lean, helper lemmas Lemmas/Layout.lean) — for ANY number of sections and segments,
by induction over the member lists and the ordered segment list, with explicit hypotheses:
  no 64-bit wrap of the file cursor and ELF32 field fit (`layoutNW`, a Bool function following the
  passes: every cursor update p -> p' has p.toNat <= p'.toNat, every stored offset < 2^32 in ELF32),
  fewer than 2^16 sections, no file-occupying section with index 0 (section 0 is the NULL section).
  Since fix d985122 `save` first makes all data resident; the layout hypotheses are stated on
  `preSave o` (same header fields, `preSave_hdr`).
 * layoutLoose_disjoint / layoutLoose_aligned — layout_sections_without_segments.
 * wsd_monotone — write_segment_data: cursor monotone, generated members never re-placed, fresh members
   between the cursor before and after, gen only gains trues.
 * layout_disjoint — successful save, no writer-domain hypothesis: ELF header < program header table <=
   every non-empty file-occupying section <= section header table, table 16-aligned, sections pairwise
   disjoint; EVERY section is placed (get_ordered_segments returns a permutation). Offset-0 segments
   (lseg_offset0) need no exclusion: members are still placed at the running cursor.
 * layout_aligned — every section without explicit address starts at a multiple of max(align,1).
 * file_covers — the saved stream reaches the section header table offset (hence every range) and the
   end of every section header record (adjust_stream_size zero-fills); hypotheses: header buffer of
   sizeof(Ehdr) bytes, table offset < 2^63 (signed streamoff) and fitting e_shoff, >= 1 section.
 * per segment (pass level: member_equidistant, member_inside, segment_congruent, memsz_ge_filesz,
   memsz_covers) and for the saved object (save_segments, save_memsz_ge_filesz, save_layoutOk), on the
   writer domain `segDom`/`layoutDomB` (members count towards memsz, memsz neither wraps nor exceeds the
   field, writer-assigned addresses fit): equidistance (exact, 64-bit), offset = vaddr mod align (the wrap
   in `req - cur` is harmless for align <= 2^63), memsz >= filesz, memsz covers members under the side
   condition `cov` = no explicit address on a NOBITS/empty member (F14), members inside the file range
   under `ins` = no alignment gap before a NOBITS member (cf. F13).
 * memsz_witness — F14 machine-checked on a concrete object (also the generated case f14-witness, an
   open known finding).
NOT proved (kept as `NestedSegmentStatement`): the member clauses for NESTED segments (members generated
by an enclosing segment); for those only memsz >= filesz (save_memsz_ge_filesz). A TLS NOBITS member
outside PT_TLS is outside `segDom`. "Flat" (member lists disjoint) is a per-turn decidable hypothesis
(`segFlat`), not derived from a static predicate on the object.
Correspondence: saved bytes of harness vs model (family load).
Oracle: structural predicate on tools/elfspec.decode of the implementation's bytes: header, both
tables and all file-occupying non-empty sections pairwise disjoint and inside the file; address-less
sections aligned; members inside the segment's file range and equidistant; offset = vaddr (mod align);
memsz >= filesz and covers allocated members.  Second half of the quantifier (re-saved form of loaded
images): bundled examples and encoder images loaded then saved, same predicate without the
program-specific clauses; the theorems are stated for arbitrary objects, so they apply to loaded
objects whenever the (decidable) hypotheses hold.
"""
from families.writercommon import *
from families import c03 as _c03
from families.loadcommon import observe_lines

PROPERTY = "C04"
FAMILY = "load"
LEAN_MODULE = "ElfioVerif.Props.C04"
THEOREMS = ["ElfioVerif.C04.layoutLoose_disjoint", "ElfioVerif.C04.layoutLoose_aligned",
            "ElfioVerif.C04.wsd_monotone", "ElfioVerif.C04.layout_disjoint", "ElfioVerif.C04.layout_aligned",
            "ElfioVerif.C04.member_equidistant", "ElfioVerif.C04.member_inside",
            "ElfioVerif.C04.segment_congruent", "ElfioVerif.C04.memsz_ge_filesz",
            "ElfioVerif.C04.memsz_covers", "ElfioVerif.C04.memsz_witness",
            "ElfioVerif.C04.save_segments", "ElfioVerif.C04.save_memsz_ge_filesz",
            "ElfioVerif.C04.save_layoutOk", "ElfioVerif.C04.file_covers"]
SITES = ["save_", "lsws", "lst_", "lseg", "wsd"]
RULE = ("writer-domain programs (power-of-two alignments; segment members in address order, non-empty, allocated, "
        "no-bits only last; automatic or explicit non-overlapping addresses; nested segments starting at a "
        "member's address) x 4 configurations; plus loaded-then-saved well-formed bundled examples; non-trivial = "
        "at least one segment with members or >= 3 sections; distinct by md5")
ASSUMPTIONS = ["file size < 2^32 (ELF32) / 2^63 (no cursor wrap-around)"]
TRUSTED = ["tools/elfspec.py decoder"]
KEEP_FIRST = 1


def gen_cases(rng, tier):
    n = 160 if tier == "quick" else 2000
    for i in range(n):
        cls, enc = CFGS[i % 4]
        p = gen_program(rng, cls, enc)
        yield {"id": f"p{i}", "lines": to_lines(p) + ["save"], "meta": {"prog": _c03.jsonable(p)}}
    yield {"id": "f14-witness", "lines": to_lines(F14_PROG) + ["save"], "meta": {"prog": _c03.jsonable(F14_PROG)}}
    for f, b in examples(20000 if tier == "quick" else 200000):
        if elfspec.wellformed(b):
            yield {"id": f"ex-{f}", "lines": [f"load {hx(b)} lazy=0 kind=str", "save"], "meta": {"example": f}}


def oracle(case, out):
    for i, o in enumerate(out):
        if o.startswith("FAULT"):
            return [{"signature": "fault:" + case["lines"][min(i, len(case["lines"]) - 1)].split()[0], "what": o}]
    if not out or not out[-1].startswith("save="):
        return []
    ok, img = saved_bytes(out[-1])
    if "prog" in case["meta"]:
        prog = _c03.unjson(case["meta"]["prog"])
        if not ok:
            return [{"signature": "save-failed", "what": "save() returned false for a writer-domain program"}]
        vs = check_c04(prog, img)
        f14 = f14_trigger(prog)
        return [{"signature": "c04:" + k + (":nobits-explicit" if f14 and k == "memsz-covers" else ""), "what": w}
                for k, w in vs][:3]
    if not ok:
        return []       # a loaded image the writer declines is not a violation of this property
    return [{"signature": "c04-resave:" + k, "what": w} for k, w in check_c04(None, img)][:3]


def f14_trigger(prog):
    """a segment member that is NOBITS and has an explicit address (finding F14: its address does not
    enter the gap computation of write_segment_data, so p_memsz need not cover it)"""
    return any(prog["secs"][m - 2]["type"] == 8 and prog["secs"][m - 2]["addr"] is not None
               for g in prog["segs"] for m in g["members"])


# the object of Props/C04.lean `memsz_witness` (f14Obj), through the API
F14_PROG = {"cls": 64, "enc": "lsb",
            "hdr": {"type": 2, "machine": 62, "flags": 0, "entry": 0x400000, "os_abi": 0, "abi_version": 0},
            "secs": [{"name": b".bss", "type": 8, "flags": 3, "align": 1, "entsize": 0, "link": 0, "info": 0,
                      "addr": 0x400024, "data": None, "size": 0x12}],
            "segs": [{"type": 1, "flags": 6, "align": 0x1000, "vaddr": 0x400000, "paddr": 0x400000,
                      "members": [2], "explicit": True}]}


def nontrivial(case, out):
    p = case["meta"].get("prog")
    if p is None:
        return bool(out) and out[-1].startswith("save=true")
    return (any(g["members"] for g in p["segs"]) or len(p["secs"]) >= 3) and bool(out) and out[-1].startswith("save=true")


def classify(case, out):
    if "prog" in case["meta"]:
        return _c03.classify(case, out)
    return ["example", "resaved" if out and out[-1].startswith("save=true") else "declined"]
