"""Random API construction programs in the writer's documented domain (C03/C04/C05/C06/C20) and
the structural oracles on saved bytes (decoded by the independent tools/elfspec.py)."""
import os, sys
sys.path.insert(0, os.path.join(os.path.dirname(os.path.dirname(os.path.abspath(__file__))), "tools"))
import elfspec
from families.loadcommon import hx, CFGS, kvline, datastr, examples

SHT = elfspec
SEC_TYPES = [1, 1, 1, 1, 7, 3, 2, 9, 4, 6, 14, 15, 0x6ffffff6, 0x70000001]
NAMES = [b".text", b".data", b".rodata", b".note", b".init_array", b".dynamic", b".rela.text", b".symtab",
         b".strtab", b".comment", b".bss", b".x", b".very.long.section.name.with.dots"]


def rnd_bytes(rng, n):
    return bytes(rng.randrange(256) for _ in range(n))


def gen_program(rng, cls, enc, nsec=None, allow_nested=True, explicit_prob=0.35, f13_free=False):
    aw = 32 if cls == 32 else 64
    top = (1 << aw) - 1
    nsec = rng.randint(0, 8) if nsec is None else nsec
    prog = {"cls": cls, "enc": enc,
            "hdr": {"type": rng.choice([1, 2, 3, rng.randrange(65536)]), "machine": rng.randrange(65536),
                    "flags": rng.randrange(1 << 32), "entry": rng.randrange(top + 1),
                    "os_abi": rng.randrange(256), "abi_version": rng.randrange(256)},
            "secs": [], "segs": []}
    for i in range(nsec):
        ty = rng.choice(SEC_TYPES + [8, 8])
        alloc = rng.random() < 0.65
        flags = (2 | rng.choice([0, 1, 4, 5])) if alloc else rng.choice([0, 0, 0x30, 0x10])
        align = rng.choice([0, 1, 1, 2, 4, 4, 8, 8, 16, 64, 4096])
        if ty == 8:
            data = None; size = rng.choice([0, 4, 32, 100, 5000])
        else:
            n = rng.choice([0, 1, 3, 8, 11, 16, 24, 33, rng.randint(0, 200)])
            data = rnd_bytes(rng, n); size = n
        prog["secs"].append({"name": rng.choice(NAMES), "type": ty, "flags": flags, "align": align,
                             "entsize": rng.choice([0, 0, 1, 8, 16, 24]), "link": rng.choice([0, 0, 1, 2, 3]),
                             "info": rng.choice([0, 0, 1, 5, rng.randrange(1 << 32)]), "addr": None,
                             "data": data, "size": size})
    # top-level PT_LOAD segments over runs of allocated, non-empty sections (NOBITS only last)
    cand = [i for i, s in enumerate(prog["secs"]) if (s["flags"] & 2) and s["size"] > 0]
    nseg = rng.choice([0, 0, 1, 1, 2, 2, 3, 4]) if cand else 0
    pos = 0
    for j in range(nseg):
        if pos >= len(cand):
            break
        k = rng.randint(1, min(4, len(cand) - pos))
        run = cand[pos:pos + k]; pos += k
        # NOBITS may only be last: cut the run after the first NOBITS
        cut = next((x for x, i in enumerate(run) if prog["secs"][i]["type"] == 8), None)
        if cut is not None:
            pos -= (len(run) - cut - 1); run = run[:cut + 1]
        base = 0x400000 + j * 0x08000000 + rng.choice([0, 0, 0x1000, 0x234, 0x10, 7])
        seg = {"type": 1, "flags": rng.choice([4, 5, 6, 7]), "align": rng.choice([0, 1, 4, 16, 0x100, 0x1000, 0x1000, 0x10000]),
               "vaddr": base, "paddr": rng.choice([base, base, rng.randrange(top + 1)]), "members": [i + 2 for i in run]}
        explicit = rng.random() < explicit_prob
        if explicit:
            a = base + rng.choice([0, 0, 4, 0x40])
            for i in run:
                s = prog["secs"][i]
                if s["type"] == 8:
                    break          # explicit addresses for NOBITS members are outside the domain (finding F14)
                s["addr"] = a
                a += s["size"] + rng.choice([0, 0, 1, 4, 16, 100])
        seg["explicit"] = explicit
        prog["segs"].append(seg)
        # nested segment: a strictly shorter contiguous sub-run starting at a member's address
        if allow_nested and explicit and len(run) >= 2 and rng.random() < 0.6:
            a0 = rng.randrange(0, len(run) - 1) if len(run) > 2 else rng.choice([0, 1])
            ln = rng.randint(1, len(run) - 1)
            sub = run[a0:a0 + ln]
            if sub and len(sub) < len(run) and all(prog["secs"][i]["addr"] is not None for i in sub):
                first = prog["secs"][sub[0]]
                prog["segs"].append({"type": rng.choice([4, 2, 0x6474e550, 0x6474e552]), "flags": 4,
                                     "align": rng.choice([1, 4, 8]), "vaddr": first["addr"], "paddr": first["addr"],
                                     "members": [i + 2 for i in sub], "explicit": True, "nested": True})
    # segments may be created in any order (the writer orders them itself)
    if len(prog["segs"]) > 1 and rng.random() < 0.5:
        rng.shuffle(prog["segs"])
    # add_section_index(idx, align) may be called with an alignment below the section's own
    for g in prog["segs"]:
        if g["members"] and rng.random() < 0.3:
            g["addalign"] = rng.choice([0, 1, 1, 2])
    if rng.random() < 0.15 and prog["segs"]:
        # PT_PHDR-style segment without sections
        # its address range must not cover any section (segments' address ranges are disjoint in the domain)
        prog["segs"].append({"type": 6, "flags": 4, "align": 8, "vaddr": 0x100040, "paddr": 0x100040, "members": [], "explicit": True})
    if f13_free:
        strip_f13(prog)
    return prog


def gen_tls_program(rng, cls, enc, tls_seg):
    """A writer-domain program with a thread-local DATA section (`.tdata`: SHT_PROGBITS, SHF_WRITE|SHF_ALLOC|SHF_TLS,
    not empty) among the members of a PT_LOAD - where the TLS initialisation image of every linked program lies -
    with (`tls_seg`) or without a PT_TLS segment nested over it.  No NOBITS members (no F13 / F14 trigger).
    gen_program never sets SHF_TLS; these programs are the trigger of finding F17 (load_segments never makes an
    SHF_TLS section a member of a non-TLS segment)."""
    prog = gen_program(rng, cls, enc, nsec=0)         # header fields only
    k = rng.randint(1, 3) if tls_seg else rng.randint(0, 3)      # the nested segment is strictly shorter than its host
    at = rng.randint(0, k)
    explicit = tls_seg or rng.random() < 0.4
    base = 0x400000 + rng.choice([0, 0, 0x1000, 0x234, 0x10])
    a = base + rng.choice([0, 0, 4, 0x40])
    for i in range(k + 1):
        tls = i == at
        n = rng.choice([1, 3, 8, 11, 16, 24, 33])
        s = {"name": b".tdata" if tls else rng.choice([b".text", b".data", b".rodata", b".x"]), "type": 1,
             "flags": 0x403 if tls else 2 | rng.choice([0, 1, 4, 5]), "align": rng.choice([1, 1, 4, 8, 16]),
             "entsize": 0, "link": 0, "info": 0, "addr": None, "data": rnd_bytes(rng, n), "size": n}
        if explicit:
            s["addr"] = a
            a += n + rng.choice([0, 0, 1, 4, 16, 100])
        prog["secs"].append(s)
    if rng.random() < 0.5:
        prog["secs"].append({"name": b".comment", "type": 1, "flags": 0x30, "align": 1, "entsize": 1, "link": 0, "info": 0,
                             "addr": None, "data": rnd_bytes(rng, rng.choice([0, 5, 17])), "size": 0})
        prog["secs"][-1]["size"] = len(prog["secs"][-1]["data"])
    prog["segs"].append({"type": 1, "flags": rng.choice([6, 7]), "align": rng.choice([0, 16, 0x100, 0x1000, 0x1000]),
                         "vaddr": base, "paddr": base, "members": [i + 2 for i in range(k + 1)], "explicit": explicit})
    if tls_seg:
        t = prog["secs"][at]
        prog["segs"].append({"type": 7, "flags": 4, "align": rng.choice([1, 4, 8]), "vaddr": t["addr"], "paddr": t["addr"],
                             "members": [at + 2], "explicit": True, "nested": True})
        if rng.random() < 0.5:
            prog["segs"].reverse()
    return prog


def tls_member(prog, img):
    """an SHF_TLS section that is a member of - or lies (by address if allocated, by file offset otherwise) inside -
    a segment that is not a PT_TLS: in the construction program `prog` (may be None) or in the saved image `img`.
    elfio::load_segments never reports such a section as a member of that segment (finding F17)."""
    if prog is not None:
        for g in prog["segs"]:
            if g["type"] != 7 and any(prog["secs"][m - 2]["flags"] & 0x400 for m in g["members"] if 0 <= m - 2 < len(prog["secs"])):
                return True
    d = elfspec.decode(img) if img else None
    if d is None:
        return False
    for s in d["sections"]:
        if (s["sh_flags"] & elfspec.SHF_TLS) and s["sh_type"] != 0:
            for g in d["segments"]:
                if g["p_type"] not in (elfspec.PT_TLS, elfspec.PT_NULL) and \
                        elfspec.in_segment(dict(s, sh_flags=s["sh_flags"] & ~elfspec.SHF_TLS), g, (1 << 64) - 1):
                    return True
    return False


def f13_trigger(prog):
    """an address-less NOBITS member that may need an alignment gap: the file cursor moves on the
    first save but not on a later one (known finding F13)"""
    for g in prog["segs"]:
        for m in g["members"]:
            s = prog["secs"][m - 2]
            if s["type"] == 8 and s["addr"] is None and s["align"] > 1:
                return True
    return False


def strip_f13(prog):
    for g in prog["segs"]:
        if not g.get("explicit"):
            for m in g["members"]:
                s = prog["secs"][m - 2]
                if s["type"] == 8:
                    s["align"] = rng_free_choice(s["align"])


def rng_free_choice(a):
    return 1 if a > 1 else a


def to_lines(prog):
    L = [f"create cls={prog['cls']} enc={prog['enc']}"]
    for k, v in prog["hdr"].items():
        L.append(f"hset {k} {v}")
    for s in prog["secs"]:
        ln = f"addsec name={hx(s['name'])} type={s['type']} flags={s['flags']} align={s['align']} entsize={s['entsize']} link={s['link']} info={s['info']}"
        if s["addr"] is not None:
            ln += f" addr={s['addr']}"
        if s["data"] is not None:
            ln += f" data={hx(s['data'])}"
        else:
            ln += f" size={s['size']}"
        L.append(ln)
    for j, g in enumerate(prog["segs"]):
        L.append(f"addseg type={g['type']} flags={g['flags']} align={g['align']} vaddr={g['vaddr']} paddr={g['paddr']}")
        for m in g["members"]:
            L.append(f"segadd {j} {m}" + (f" {g['addalign']}" if g.get("addalign") is not None else ""))
    return L


def saved_bytes(line):
    f = kvline(line)
    b = f.get("bytes", "-")
    return f.get("save") == "true", (bytes.fromhex(b) if b != "-" else b"")


# ---------------------------------------------------------------- oracles on saved bytes

def check_c03(prog, img):
    """the saved bytes decode, per the specification, to what was put in"""
    v = []
    d = elfspec.decode(img)
    if d is None:
        return [("decode", "saved bytes are not a decodable ELF image")]
    cls = prog["cls"]; enc = prog["enc"]
    if d["cls"] != cls or d["enc"] != enc:
        v.append(("ident", f"class/encoding {d['cls']}/{d['enc']}"))
    eh = d["ehdr"]; h = prog["hdr"]
    exp = {"e_type": h["type"], "e_machine": h["machine"], "e_flags": h["flags"], "e_entry": h["entry"],
           "e_version": 1, "e_ehsize": elfspec.EHSIZE[cls], "e_shentsize": elfspec.SHSIZE[cls],
           "e_phentsize": elfspec.PHSIZE[cls], "e_shnum": len(prog["secs"]) + 2, "e_phnum": len(prog["segs"]),
           "e_shstrndx": 1}
    for k, val in exp.items():
        if eh[k] != val:
            v.append(("ehdr:" + k, f"{k}={eh[k]} expected {val}"))
    if img[7] != h["os_abi"] or img[8] != h["abi_version"] or img[6] != 1:
        v.append(("ehdr:ident", "os_abi/abi_version/EI_VERSION"))
    if len(d["sections"]) == len(prog["secs"]) + 2:
        s0 = d["sections"][0]
        if any(s0[k] for k in ("sh_type", "sh_flags", "sh_addr", "sh_offset", "sh_size")):
            v.append(("sec0", "section 0 is not the null section"))
        if d["sections"][1]["name"] != b".shstrtab" or d["sections"][1]["sh_type"] != 3:
            v.append(("shstrtab", "section 1 is not .shstrtab"))
        for i, s in enumerate(prog["secs"]):
            t = d["sections"][i + 2]
            name = s["name"].split(b"\0")[0]
            chk = {"name": (t["name"], name), "type": (t["sh_type"], s["type"]), "flags": (t["sh_flags"], s["flags"]),
                   "link": (t["sh_link"], s["link"]), "info": (t["sh_info"], s["info"]),
                   "align": (t["sh_addralign"], s["align"]), "entsize": (t["sh_entsize"], s["entsize"]),
                   "size": (t["sh_size"], s["size"])}
            if s["addr"] is not None:
                chk["addr"] = (t["sh_addr"], s["addr"])
            if s["data"] is not None:
                chk["data"] = (t["data"], s["data"])
            for k, (got, want) in chk.items():
                if got != want:
                    v.append(("sec:" + k, f"section {i+2} {k}: {str(got)[:40]} expected {str(want)[:40]}"))
    for j, g in enumerate(prog["segs"]):
        if j >= len(d["segments"]):
            break
        t = d["segments"][j]
        for k, (got, want) in {"type": (t["p_type"], g["type"]), "flags": (t["p_flags"], g["flags"]),
                               "vaddr": (t["p_vaddr"], g["vaddr"]), "paddr": (t["p_paddr"], g["paddr"])}.items():
            if got != want:
                v.append(("seg:" + k, f"segment {j} {k}: {got} expected {want}"))
        if t["p_align"] < g["align"]:
            v.append(("seg:align", f"segment {j} align {t['p_align']} < requested {g['align']}"))
    return v


def ranges_disjoint(rs):
    rs = sorted((a, b, n) for a, b, n in rs if b > a)
    for (a1, b1, n1), (a2, b2, n2) in zip(rs, rs[1:]):
        if a2 < b1:
            return (n1, n2)
    return None


def check_c04(prog, img, members_from_prog=True):
    """structural well-formedness of a saved file"""
    v = []
    d = elfspec.decode(img)
    if d is None:
        return [("decode", "saved bytes are not a decodable ELF image")]
    cls = d["cls"]; eh = d["ehdr"]; L = len(img)
    rs = [(0, elfspec.EHSIZE[cls], "ehdr"),
          (eh["e_shoff"], eh["e_shoff"] + eh["e_shnum"] * eh["e_shentsize"], "sht")]
    if eh["e_phnum"]:
        rs.append((eh["e_phoff"], eh["e_phoff"] + eh["e_phnum"] * eh["e_phentsize"], "pht"))
    for i, s in enumerate(d["sections"]):
        if elfspec.occupies_file(s["sh_type"]) and s["sh_size"]:
            rs.append((s["sh_offset"], s["sh_offset"] + s["sh_size"], f"sec{i}"))
    for a, b, n in rs:
        if b > L:
            v.append(("outside", f"{n} [{a},{b}) outside the file of {L} bytes"))
    bad = ranges_disjoint(rs)
    if bad:
        v.append(("overlap", f"{bad[0]} overlaps {bad[1]}"))
    explicit = set()
    if prog is not None:
        explicit = {i + 2 for i, s in enumerate(prog["secs"]) if s["addr"] is not None}
    for i, s in enumerate(d["sections"]):
        if i and i not in explicit and s["sh_addralign"] > 1 and s["sh_type"] != 0 and prog is not None:
            if s["sh_offset"] % s["sh_addralign"]:
                v.append(("misaligned", f"section {i} offset {s['sh_offset']} not a multiple of {s['sh_addralign']}"))
    if prog is not None:
        for j, g in enumerate(prog["segs"]):
            if j >= len(d["segments"]):
                break
            t = d["segments"][j]
            al = t["p_align"] or 1
            if g["members"] and (t["p_offset"] - t["p_vaddr"]) % al and not g.get("nested"):
                v.append(("congruence", f"segment {j}: offset {t['p_offset']} !≡ vaddr {t['p_vaddr']} mod {al}"))
            if t["p_memsz"] < t["p_filesz"]:
                v.append(("memsz<filesz", f"segment {j}"))
            for m in g["members"]:
                if m >= len(d["sections"]):
                    v.append(("member-missing", f"segment {j} member {m}: the saved file has only {len(d['sections'])} sections"))
                    continue
                s = d["sections"][m]
                if elfspec.occupies_file(s["sh_type"]):
                    if not (t["p_offset"] <= s["sh_offset"] and s["sh_offset"] + s["sh_size"] <= t["p_offset"] + t["p_filesz"]):
                        v.append(("member-outside-file-range", f"segment {j} member {m}"))
                    if s["sh_offset"] - t["p_offset"] != s["sh_addr"] - t["p_vaddr"]:
                        v.append(("equidistance", f"segment {j} member {m}: file distance {s['sh_offset'] - t['p_offset']} vs memory distance {s['sh_addr'] - t['p_vaddr']}"))
                if (s["sh_flags"] & 2) and not (t["p_vaddr"] <= s["sh_addr"] and s["sh_addr"] + s["sh_size"] <= t["p_vaddr"] + t["p_memsz"]):
                    v.append(("memsz-covers", f"segment {j} memsz {t['p_memsz']} does not cover member {m}"))
    return v
