"""C07 — section data editing behaves like editing a byte string.

Proof: Props/C07.lean (`edit_refines`, `edits_refine`, `insert_beyond_noop`, `nobits_never_data`,
`fresh_inv`, `loaded_inv`, `lazy_inv`) about Model/SecBuf.lean, whose guards are the generated
expressions of Gen/Sites.lean (sec{32,64}_insert_*, sec*_set_*).  Correspondence: the same
operation sequences on the real `section_impl` (harness/c07.cpp) and on the model (Driver/C07.lean).
Oracle: Python bytes editing.
Sources that alias the section's own buffer (Props/C07Alias.lean; the section model takes the source by value):
`insertGrowAlias_eq` - in the growing branch (source read from the old buffer, alive until the move-assignment) an
aliasing source behaves like its value at every position; `appendInPlaceAlias_eq` - in the in-place branch it does
for appends; `insertInPlaceAlias_witness` - for an insert in the middle it does not (the tail move overwrites the
source first), which is why only appends are generated with an aliasing source (`appself`).  A copy moved behind
the release of the old buffer is a runtime matter (use after free): correspondence + ASan.
"""
import itertools

PROPERTY = "C07"
FAMILY = "c07"
LEAN_MODULE = "ElfioVerif.Props.C07"
THEOREMS = ["ElfioVerif.C07.edit_refines", "ElfioVerif.C07.edits_refine", "ElfioVerif.C07.insert_beyond_noop",
            "ElfioVerif.C07.nobits_never_data", "ElfioVerif.C07.fresh_inv", "ElfioVerif.C07.loaded_inv",
            "ElfioVerif.C07.lazy_inv",
            # sources that alias the section's own buffer (Props/C07Alias.lean)
            "ElfioVerif.C07Alias.insertGrowAlias_eq", "ElfioVerif.C07Alias.appendInPlaceAlias_eq",
            "ElfioVerif.C07Alias.insertInPlaceAlias_witness"]
EXTRA_IMPORTS = ["ElfioVerif.Props.C07Alias"]
SITES = ["sec32_insert", "sec64_insert", "sec32_set", "sec64_set"]
RULE = ("operation sequences (set/app/ins and std::string overloads, appends whose source is a piece of the section's own buffer, chunks 0-300 bytes, positions 0..size+5, "
        "length<=12) on fresh sections of type PROGBITS/NOBITS/STRTAB and on sections loaded eagerly/lazily, "
        "x{ELF32,ELF64}x{LSB,MSB}; thorough adds all sequences of length<=4 over a 5-op alphabet. "
        "non-trivial = at least one operation changed the byte string; distinct by md5 of the case text")
ASSUMPTIONS = ["new(nothrow) succeeds for the sizes generated (<= a few KiB)",
               "sizes stay below 2^32 (ELF32) / 2^63 (growth guard) - explicit hypotheses of the theorems"]
TRUSTED = ["SecBuf.loadedEager/loadedLazy abstract the loader (tied to the loader model by C01/C02's LoadedInv)"]
KEEP_FIRST = 1
SHT_NOBITS = 8


def hx(b):
    return b.hex() if b else "-"


def rand_chunk(rng):
    k = rng.random()
    if k < 0.15: n = 0
    elif k < 0.6: n = rng.randint(1, 8)
    elif k < 0.9: n = rng.randint(9, 64)
    else: n = rng.randint(65, 300)
    return bytes(rng.randrange(256) for _ in range(n))


def setup_line(rng):
    cls = rng.choice([32, 64]); enc = rng.choice(["lsb", "msb"])
    k = rng.random()
    if k < 0.45:
        ty = rng.choice([1, 1, 1, 3, 7, 8])
        return f"new cls={cls} enc={enc} type={ty}", ty, b""
    lazy = 1 if k > 0.7 else 0
    d = rand_chunk(rng) if rng.random() < 0.9 else b""
    ty = rng.choice([1, 1, 3, 7])
    return f"loadsec cls={cls} enc={enc} lazy={lazy} type={ty} data={hx(d)}", ty, d


def gen_cases(rng, tier):
    n = 400 if tier == "quick" else 4000
    for i in range(n):
        first, ty, d = setup_line(rng)
        lines = [first]; size = len(d)
        for _ in range(rng.randint(1, 12)):
            op = rng.choice(["set", "sets", "app", "app", "apps", "ins", "ins", "ins", "inss", "setnull", "get", "appself"])
            c = rand_chunk(rng)
            if op == "appself":
                # append a piece of the section's own data, passing a pointer into its buffer
                if size == 0 or ty == SHT_NOBITS:
                    continue
                off = rng.randrange(size); m = rng.randint(1, size - off)
                lines.append(f"appself {off} {m}"); size += m
                continue
            if op in ("set", "sets"):
                lines.append(f"{op} {hx(c)}"); size = len(c)
            elif op in ("app", "apps"):
                lines.append(f"{op} {hx(c)}"); size += len(c)
            elif op in ("ins", "inss"):
                pos = rng.randint(0, size + 5)
                lines.append(f"{op} {pos} {hx(c)}")
                if pos <= size: size += len(c)
            elif op == "setnull":
                if rng.random() < 0.2:
                    lines.append(f"setnull {rng.randint(0, 40)}"); size = 0
            else:
                lines.append(op)
        yield {"id": f"r{i}", "lines": lines, "meta": {}}
    # exhaustive small scope: all sequences of length <= L over a small alphabet
    alpha = ["app -", "app aa", "ins 0 bbcc", "ins 1 dd", "ins 3 ee", "set f0f1f2"]
    L = 3 if tier == "quick" else 4
    setups = ["new cls=64 enc=lsb type=1", "loadsec cls=32 enc=msb lazy=1 type=1 data=010203",
              "loadsec cls=64 enc=lsb lazy=0 type=1 data=0102"]
    k = 0
    for s in setups:
        for ln in range(1, L + 1):
            for seq in itertools.product(alpha, repeat=ln):
                yield {"id": f"x{k}", "lines": [s] + list(seq), "meta": {"exhaustive": True}}
                k += 1


def parse_setup(line):
    t = line.split()
    kv = dict(x.split("=", 1) for x in t[1:] if "=" in x)
    ty = int(kv.get("type", "1"))
    d = bytes.fromhex(kv["data"]) if kv.get("data", "-") != "-" else b""
    return t[0], ty, d


def reference(case):
    """expected (size, data-hex-or-None) after each line; None = no claim"""
    kind, ty, d = parse_setup(case["lines"][0])
    cur = bytearray(d if kind == "loadsec" else b"")
    exp = [("size", len(cur)) if kind == "loadsec" else ("full", len(cur), "null" if ty == SHT_NOBITS else hx(bytes(cur)))]
    for ln in case["lines"][1:]:
        t = ln.split()
        op = t[0]
        if ty == SHT_NOBITS:
            exp.append(("nobits",)); continue
        if op in ("set", "sets"):
            cur = bytearray(bytes.fromhex(t[1]) if t[1] != "-" else b"")
        elif op == "setnull":
            cur = bytearray()
        elif op in ("app", "apps"):
            cur += bytes.fromhex(t[1]) if t[1] != "-" else b""
        elif op == "appself":
            off, m = int(t[1]), int(t[2])
            if off + m <= len(cur):
                cur += bytes(cur[off:off + m])
        elif op in ("ins", "inss"):
            pos = int(t[1]); c = bytes.fromhex(t[2]) if t[2] != "-" else b""
            if pos <= len(cur):
                cur[pos:pos] = c
        exp.append(("full", len(cur), hx(bytes(cur))))
    return exp


def oracle(case, out):
    v = []
    exp = reference(case)
    for i, e in enumerate(exp):
        if i >= len(out):
            break
        o = out[i]
        if o.startswith("FAULT"):
            v.append({"signature": "fault:" + case["lines"][min(i, len(case["lines"]) - 1)].split()[0],
                      "what": f"memory fault during `{case['lines'][min(i, len(case['lines'])-1)][:60]}`: {o}"})
            break
        if o.startswith("bad-op"):
            continue
        f = dict(x.split("=", 1) for x in o.split() if "=" in x)
        if e[0] == "nobits":
            if f.get("data") != "null":
                v.append({"signature": "nobits-data", "what": f"NOBITS section acquired data at line {i}: {o}"}); break
        elif e[0] == "size":
            if int(f.get("size", -1)) != e[1]:
                v.append({"signature": "load-size", "what": f"loaded size {o} != {e[1]}"}); break
        else:
            if int(f.get("size", -1)) != e[1] or f.get("data") != e[2]:
                v.append({"signature": "edit-mismatch:" + case["lines"][i].split()[0],
                          "what": f"after `{case['lines'][i][:60]}` got {o[:80]} expected size={e[1]} data={e[2][:40]}"})
                break
    if len(out) > len(exp) and out[len(exp)].startswith("FAULT"):
        v.append({"signature": "fault:end", "what": out[len(exp)]})
    return v


def nontrivial(case, out):
    datas = [o for o in out if "data=" in o]
    return len(set(datas)) > 1


def classify(case, out):
    ks = [case["lines"][0].split()[0] + ("-lazy" if "lazy=1" in case["lines"][0] else "")]
    ks += ["op:" + l.split()[0] for l in case["lines"][1:]]
    if any(o.startswith("FAULT") for o in out): ks.append("fault")
    return ks
