"""Shared pieces of the loader families (C01, C02, C15, C17): case construction, transcript
parsing, bundled examples."""
import os, sys
sys.path.insert(0, os.path.join(os.path.dirname(os.path.dirname(os.path.abspath(__file__))), "tools"))
import elfspec

REPO = os.environ.get("ELFIO_REPO", "/repo")
EXDIR = os.path.join(REPO, "tests", "elf_examples")
CFGS = [(32, "lsb"), (32, "msb"), (64, "lsb"), (64, "msb")]


def fnv(b):
    h = 1469598103934665603
    for x in b:
        h = ((h ^ x) * 1099511628211) % (1 << 64)
    return h


def datastr(d):
    if d is None:
        return "null"
    if len(d) <= 64:
        return d.hex() if d else "-"
    return f"len:{len(d)}:fnv:{fnv(d)}"


def hx(b):
    return b.hex() if b else "-"


def examples(max_size=None):
    out = []
    if not os.path.isdir(EXDIR):
        return out
    for f in sorted(os.listdir(EXDIR)):
        p = os.path.join(EXDIR, f)
        if not os.path.isfile(p):
            continue
        b = open(p, "rb").read()
        if len(b) < 52 or b[:4] != b"\x7fELF":
            continue
        if max_size and len(b) > max_size:
            continue
        out.append((f, b))
    return out


def counts(img):
    """(nsec, nseg) as the header says (0,0 if unreadable)"""
    d = None
    try:
        if len(img) >= 16 and img[:4] == b"\x7fELF" and img[4] in (1, 2) and img[5] in (1, 2):
            cls = 32 if img[4] == 1 else 64
            enc = "lsb" if img[5] == 1 else "msb"
            if len(img) >= elfspec.EHSIZE[cls]:
                eh = elfspec.unpack(elfspec.EHDR[cls], img, 16, enc)
                return eh["e_shnum"], eh["e_phnum"]
    except Exception:
        pass
    return 0, 0


def observe_lines(img, max_sec=40, max_seg=16, data=True):
    ns, ng = counts(img)
    ns = min(ns, max_sec); ng = min(ng, max_seg)
    sfx = "" if data else " data=0"
    return ["hdr"] + [f"sec {i}{sfx}" for i in range(ns + 1)] + [f"seg {j}{sfx}" for j in range(ng + 1)]


def kvline(line):
    return dict(x.split("=", 1) for x in line.split() if "=" in x)
