"""C02 — the reader reports what the ELF specification says is in the file.

Proof (Props/C02.lean, helper lemmas in Lemmas/LoadSpec.lean), for ALL images, no size bound other
than `img.length < 2^63`:
 * record level: the generated struct layouts/constants equal the gABI tables (`layouts_eq_spec`),
   every header / section-header / program-header field decoder equals the specification codec at
   the specification offset (`ehdr_fields_eq_spec`, `shdr_fields_eq_spec`, `phdr_fields_eq_spec`),
   the generated membership test equals `Spec.inSegment` when no range end wraps (`member_eq_spec`);
 * `WellFormedImage img` : decidable, written against Spec/Records.lean only (magic/class/data,
   complete ELF header, entry sizes >= record sizes, every table record and every file-occupying
   section / non-empty non-null segment range inside the file, e_shstrndx valid, no address/offset
   range end reaches 2^64, names terminated inside the string table);
 * per-record rungs `secLoad_wf`, `segLoad_wf` (header read succeeds, fields = decoded record,
   eager data = file range + NUL, stream stays good);
 * whole load `load_eq_spec` : WellFormedImage img -> for every start object without address
   translation, both stream kinds, eager and lazy: `load` returns ok and (`LoadSpec`) the raw header
   is the file's first bytes with all 13 getters = specification fields, section count = e_shnum,
   every section's index + ten fields = `Spec.get (shdrL c) enc img (e_shoff + i*e_shentsize)`,
   name = NUL-terminated string at sh_name in the section-name string table (`name_eq_cstr`),
   data after get_data() on a stream in ANY position/error state = file range (empty for
   NULL/NOBITS), the same for segments, and members j = (range e_shnum).filter Spec.inSegment.
   Built as a ladder: `load_gate` (header) -> `loadSectionsLoop_inside`/`loadSections_inside`
   (induction over the section loop) -> `loadNames_inside` (`cstrAt_eq_spec`, `resolveNames_eq`)
   -> `loadSegmentsLoop_inside`/`loadSegs_inside` (induction over the segment loop) ->
   `SegmentSpec_of_segFinal` (membership via `member_eq_spec`).  Nothing of the C02 statement is
   left unproved; non-vacuity: a concrete 228-byte ELF32 image satisfies WellFormedImage (`decide`).
 * composition with the writer (Props/Compose.lean, Lemmas/RoundTrip.lean): `Compose.saved_wellFormed` — the
   bytes of a successful `save` satisfy WellFormedImage (magic/class/data bytes: setters write behind byte
   16; tables and ranges inside the file: C04.file_covers / layout_disjoint, loose-section pass for empty
   sections, layoutSegment_flat for segment ranges; length < 2^63: positioned-writes form of the stream;
   name table terminated: decidable hypothesis on the input object) — and `Compose.reload_reports_saved`
   (+ `_noseg`, `_flat` with hypotheses on the input object only): `load` of the saved bytes, eager and lazy,
   succeeds and the loaded object shows header, per-section (index, name offset, type, flags, address, offset,
   size, link, info, alignment, entry size, name, data) and per-segment (index, type, flags, offset, vaddr,
   paddr, filesz, memsz, align, members = Spec.inSegment on the saved fields, data) values of the object
   `save` left (`RoundTrip.Reloaded`); `RoundTrip.load_state` adds to `load_eq_spec` the state facts
   "every section has its address set" and "resident data = file range ++ NUL".
 * TABLES of a loaded file (Props/ComposeTables.lean, Lemmas/LoadedTables.lean): C02 composed with the accessor
   families C08..C14.  `LoadedTables.of_load`: `load` of a well-formed image (eager/lazy, either stream kind) yields
   an object in the state `LoadedFrom img` (every section in a state of the loader's per-section ladder `SecSt`);
   `LoadedTables.secResident_ready` / `ComposeTables.loaded_section_ready`: for EVERY section index i,
   `sections[i]->get_data()` against the real stream (`Inspect.secResident` = `TQ.settle`) keeps `LoadedFrom` and hands
   the accessor a section `SecReady img i`: settled (the accessor models' own get_data() is the identity), of the
   image's class, all ten header fields = the specification's, visible bytes = `C02.secFileBytes img i` (= the slice
   of img at sh_offset of length sh_size for file-occupying types, empty for SHT_NULL/SHT_NOBITS), allocation
   = size+1 bytes ending in NUL, C08's `Fits`, and for file-occupying types C07's `SecBuf.Inv` with content =
   secFileBytes; i >= e_shnum: null pointer.  Per table kind, for ALL entry indices (out of range => refused), each
   returning `LoadedFrom` for the object left behind (so the statements hold after any sequence of earlier queries):
     strings_reports_spec   (any section, any type) inspect(.str i k) and C08's StrSec.getString = Spec.strAt
                            (secFileBytes img i) k; `cstrAt_eq_strAt`: the loader-side and C08 reference lookups agree
     symbols_reports_spec   [sh_type occupies file; sh_entsize = sizeof(Sym) of the class; `LinkOk`: (Elf_Half)sh_link
                            names no section or a file-occupying one] get_symbols_num = sh_size/sizeof(Sym);
                            get_symbol(k) = `specSymbol`: Spec.decodeSym of record k of the section's file bytes
                            (ELF_ST_BIND/TYPE of st_info) + the name at st_name in the linked section's file bytes
     reloc_reports_spec     [sh_type = SHT_REL / SHT_RELA; sizeof(Rel/Rela) <= sh_entsize] both classes, both byte
                            orders: C11's Reloc.getEntry(k) = Spec.decodeEntry of the record at k*sh_entsize
                            (r_offset, ELFn_R_SYM/TYPE of r_info, signed r_addend; 0 for REL), refused for
                            k >= sh_size/sh_entsize
     dynamic_reports_spec   [occupies file; sh_entsize = sizeof(Dyn); LinkOk] get_entries_num = min(size/sizeof(Dyn),
                            first DT_NULL + 1) of the records decoded from the file bytes (Spec.entriesOf); get_entry(k)
                            = Spec.dynGet (tag, d_un, string through the linked table's file bytes)
     notes_reports_spec / segment_notes_reports_spec   [file bytes of the section / of the PT_NOTE segment's range =
                            Spec.encodeNotes ns for notes with 32-bit fields; size <= 2^32-3] get_notes_num = |ns|,
                            get_note(k) = k-th note (type, name, descriptor), refused for k >= |ns|; the segment theorem
                            needs/keeps the segment side `SegsFrom` (`segs_of_load`, `segResident_ready`: a segment
                            data request delivers the file range and keeps both invariants)
     array_reports_spec     [occupies file; sh_size % w = 0, w in {4,8}] C14's Arr.getEntry(k) = Spec.tableEntry (k-th
                            w-byte integer of the file bytes in the file's byte order)
     versym_reports_spec    [occupies file; even size < 2^33; file byte order = host byte order] Versym.getEntry(k) =
                            k-th half-word of the file bytes.  The host-order hypothesis cannot be discharged (open
                            finding F4: the accessor has no convertor).
   Accessor side = the accessor family's own model run as Model/Inspect.lean runs it on a loaded object
   (str / symNum / sym / dynNum / dyn / noteNum / note / segNoteNum / segNote are `Inspect.inspect` queries, which
   the `load` family's driver executes and check.py compares with the real accessors; relocation / array / versym
   are the C11 / C14 models applied to the section `secResident` hands out).  Each theorem has an `example` on a
   744-byte image (`ComposeTables.exImg`, built by an independent script) with all these tables.
     tq_reports_spec        the relocation / array / versym read-outs also through C18's query model
                            `TQ.runQuery o (.relGet | .arrGet | .versymGet …)` (the null-data guards of the C18 fixes
                            are false on a ready file-occupying section: `tq_relGet_eq`)
     section_query_keeps_segs   the section queries leave the segments alone (so `SegsFrom` survives them)
   Part 2 (Props/ComposeTables2.lean, Lemmas/LoadedTables2.lean; same state `LoadedFrom img o`, every theorem returns
   `LoadedFrom` and "segments untouched" for the object it leaves; examples on the 712-byte image `exImg2` with a SysV
   hash section, `.modinfo`, `.gnu.version_r/_d`, a REL table linked to `.symtab`):
     LoadedTables.findHash_eq / symTabFor_wf   `find_hash_section()` on the loaded object = `hashIdx img i` (first section
                            header whose sh_link is i and whose type is SHT_HASH / SHT_GNU_HASH / 0x6ffffef5; 0 = none);
                            `symbol_section_accessor(elf, sections[i])` as C18's query model builds it (`TQ.symTabFor`:
                            symbol, linked string and hash section made resident) is a table the C09 readers can read
                            (`SymTab.Wf`) over the image's bytes, its hash section is the ready section `hashIdx img i`
     byvalue_reports_spec   [symbol table as in symbols_reports_spec] TQ.runQuery(.symByValue i v) = `specByValue`: the
                            FIRST record whose st_value is v (Spec.lookupValue over the decoded records), its name and
                            attributes; false with the out-parameters untouched when there is none; every 64-bit v
     byname_reports_spec    [+ `ValidNames` (every st_name leads to a terminated string; decidable) and img < 4 GiB]
                            the code AS IT IS after fixes/11-13 (TQ.runQuery(.symByName i name): guarded SysV / GNU walks
                            over WHATEVER the hash section holds, then the linear fallback) RETURNS for every name and
                            answers like the linear scan (`ByNameSpec`: found iff Spec.lookupName finds the name; the
                            attributes are those of an entry of that name, the first one's when the name is unique).
                            New lemmas `LoadedTables.TQSound.{sysvLoop_symAt,hashLookup_sound,gnuLoop_sound,gnuLookup_sound,
                            hashPhase_sound,lookup_name}`: soundness of the FIXED walks (C09 has it for the unguarded ones)
     byname_model_reports_spec   the same for C09's accessor model `SymTab.getByName` (walks without the C18 guards) on the
                            accessor `TQ.symTabFor` builds: (a) whenever it returns, `ByNameSpec` - through ANY hash section
                            (C09.lookup_name); (b) it returns when there is no hash section or a well-formed one
                            (`HashSecOk`: C09's SysvWf / GnuWf on the hash section's file bytes, explicit hypothesis;
                            C09.lookup_name_wellformed)
     modinfo_reports_spec   [occupies file; file bytes = Spec.encodeModinfo as with `Spec.AttrOk` attributes; decidable]
                            inspect(.modinfo i) = as (= Spec.parseModinfo of the file bytes), get_attribute(k) = as[k]?
                            for every 32-bit k, get_attribute(field) = Spec.lookupFirst as field for every name
     verneed_reports_spec / verdef_reports_spec   [occupies file; sh_link (full 32 bits) names a file-occupying section]
                            for EVERY cached count `num` (DT_VERNEEDNUM / DT_VERDEFNUM) and every 32-bit no:
                            C14's Verneed/Verdef.getEntry on the two sections handed out = none for no >= num, and for
                            no < num exactly `Spec.needView` / `Spec.defView` of the FILE BYTES of the section and of the
                            linked string table whenever that reference reader succeeds
     reloc_resolved_reports_spec   [relocation section as in reloc_reports_spec whose (Elf_Half)sh_link names a symbol table
                            as in symbols_reports_spec] TQ.runQuery(.relGetResolved i k) = `resolvedOf r (specSymbol img
                            (linkIdx img i))` with r.map toSpec = specReloc img i k: the composition of reloc_reports_spec
                            and symbols_reports_spec (offset, type, addend from the record; symbol value and name from
                            symbol r_sym of the linked table; calcValue = the accessor's i386 switch `TQ.relCalc`, only
                            when the symbol exists; a symbol index beyond the table: false, value/name/calcValue untouched)
     reloc_resolved_nosymtab   [(Elf_Half)sh_link names no section] false for every k, offset/type/addend from the record
   Part 3 (Props/ComposeTables3.lean, Lemmas/LoadedTables3.lean):
     verneed_tq_reports_spec / verdef_tq_reports_spec   [occupies file; `VerLinkOk`: the 32-bit sh_link names nothing or a
                            file-occupying section; decidable] the code AS IT IS after fixes/19 - C18's guarded walkers
                            `TQ.runQuery (.needGet / .defGet i num no)` - for EVERY cached count and EVERY index returns
                            `specNeed / specDef img i num no`: none for no >= num; for no < num the reference view
                            `Spec.needView / defView` of the FILE BYTES (it succeeds) when the chain is well-formed up to
                            entry no (`needChainWf / defChainWf`, Bool: a record fits, each of the first `no` links is > 0
                            and stays inside the section, the first aux record lies inside, the name offsets are
                            terminated strings of the linked table `verTab`), none (a refusal) otherwise.  The guarded
                            walker and the reference reader differ exactly outside `ChainWf` (e.g. `vn_next = 0`: the
                            reader stays on the record, the fix refuses - example on `exImg2`, entry 1).
     vernum_reports_spec / vernum_nodynamic   [di = the FIRST section named ".dynamic" (bounded forall over secName), as in
                            dynamic_reports_spec] the count the constructors cache, `TQ.dynNum o need`, = `specVerScan`
                            of the records decoded from that section's file bytes: the Elf_Word-truncated value of the
                            first reported entry (up to the first DT_NULL) with tag DT_VERNEEDNUM / DT_VERDEFNUM, else 0;
                            0 when no section has that name.
   NOT done: the two statements are separate (any `num` / the `num` the constructor finds), not glued into one "accessor
   object" theorem; by-name through `TQ` needs img < 4 GiB (C18's `Small`); notes are characterised by
   "bytes = encodeNotes ns" (no decoder-side characterisation: a malformed note section is C13.get_note_total / C01).
 * not covered by proof (correspondence only): that Model/IStream.lean is libstdc++ and that
   Model/Load.lean is ELFIO's loader (differential check below); images with an address
   translation table (C15).
Correspondence: harness/load.cpp vs Driver/Load.lean on encoder-built images (tools/elfspec.py,
independent of ELFIO) and the bundled examples, eager and lazy, string- and file-backed streams.
Oracle: tools/elfspec.decode (independent spec-level decoder).
"""
from families.loadcommon import *

PROPERTY = "C02"
FAMILY = "load"
LEAN_MODULE = "ElfioVerif.Props.C02"
THEOREMS = ["ElfioVerif.C02.layouts_eq_spec", "ElfioVerif.C02.shdr_fields_eq_spec",
            "ElfioVerif.C02.phdr_fields_eq_spec", "ElfioVerif.C02.ehdr_fields_eq_spec",
            "ElfioVerif.C02.member_eq_spec",
            "ElfioVerif.IStream.seekEnd_tellg", "ElfioVerif.IStream.seekg_ok_ls", "ElfioVerif.IStream.read_ok_ls",
            "ElfioVerif.isolatedRead_ok",
            "ElfioVerif.load_gate", "ElfioVerif.loadSectionsLoop_inside", "ElfioVerif.cstrAt_eq_spec",
            "ElfioVerif.loadNames_inside", "ElfioVerif.loadSegmentsLoop_inside", "ElfioVerif.loadBody_inside",
            "ElfioVerif.C02.secLoad_wf", "ElfioVerif.C02.segLoad_wf",
            "ElfioVerif.C02.SectionSpec_of_SecSt", "ElfioVerif.C02.SegmentSpec_of_segFinal",
            "ElfioVerif.C02.load_eq_spec", "ElfioVerif.C02.name_eq_cstr",
            "ElfioVerif.RoundTrip.load_state",
            "ElfioVerif.RoundTrip.wellFormed_of_holds",
            "ElfioVerif.RoundTrip.reload_of_holds",
            "ElfioVerif.Compose.saved_wellFormed",
            "ElfioVerif.Compose.reload_reports_saved",
            "ElfioVerif.LoadedTables.of_load", "ElfioVerif.LoadedTables.secResident_ready",
            "ElfioVerif.LoadedTables.segResident_ready", "ElfioVerif.LoadedTables.segs_of_load",
            "ElfioVerif.ComposeTables.section_query_keeps_segs",
            "ElfioVerif.ComposeTables.loaded_section_ready", "ElfioVerif.ComposeTables.cstrAt_eq_strAt",
            "ElfioVerif.ComposeTables.strings_reports_spec", "ElfioVerif.ComposeTables.symbols_reports_spec",
            "ElfioVerif.ComposeTables.reloc_reports_spec", "ElfioVerif.ComposeTables.dynamic_reports_spec",
            "ElfioVerif.ComposeTables.notes_reports_spec", "ElfioVerif.ComposeTables.segment_notes_reports_spec",
            "ElfioVerif.ComposeTables.array_reports_spec", "ElfioVerif.ComposeTables.versym_reports_spec",
            "ElfioVerif.ComposeTables.tq_relGet_eq", "ElfioVerif.ComposeTables.tq_reports_spec",
            "ElfioVerif.LoadedTables.findHash_eq", "ElfioVerif.LoadedTables.symTabFor_wf",
            "ElfioVerif.LoadedTables.TQSound.hashPhase_sound", "ElfioVerif.LoadedTables.TQSound.lookup_name",
            "ElfioVerif.ComposeTables.byvalue_reports_spec", "ElfioVerif.ComposeTables.byname_reports_spec",
            "ElfioVerif.ComposeTables.byname_model_reports_spec", "ElfioVerif.ComposeTables.modinfo_reports_spec",
            "ElfioVerif.ComposeTables.verneed_reports_spec", "ElfioVerif.ComposeTables.verdef_reports_spec",
            "ElfioVerif.ComposeTables.verneed_tq_reports_spec", "ElfioVerif.ComposeTables.verdef_tq_reports_spec",
            "ElfioVerif.ComposeTables.vernum_reports_spec", "ElfioVerif.ComposeTables.vernum_nodynamic",
            "ElfioVerif.ComposeTables.tq_relGet_core", "ElfioVerif.ComposeTables.reloc_resolved_reports_spec",
            "ElfioVerif.ComposeTables.reloc_resolved_nosymtab"]
EXTRA_IMPORTS = ["ElfioVerif.Props.Compose", "ElfioVerif.Props.ComposeTables", "ElfioVerif.Props.ComposeTables2",
                 "ElfioVerif.Props.ComposeTables3"]
SITES = ["conv", "is_sect_in_seg", "load_s", "sec32_load", "sec64_load", "seg32_load", "seg64_load", "seg32_range", "seg64_range"]
RULE = ("well-formed images from the independent encoder tools/elfspec.py (random models: 1-9 sections, 0-4 "
        "segments, full-width field values, arbitrary table placement/order/gaps, overlapping segments, entry "
        "sizes >= record size) x {ELF32,ELF64} x {LSB,MSB} x {eager,lazy} x {string,file stream}; plus the bundled "
        "examples; non-trivial = image loads and has >= 2 sections; distinct by md5 of the case text")
ASSUMPTIONS = ["libstdc++ stream semantics as modelled in Model/IStream.lean (validated differentially)",
               "little-endian host (Gen.hostIsLittle, extracted by the layout probe)"]
TRUSTED = ["tools/elfspec.py (independent encoder/decoder used as oracle)"]
KEEP_FIRST = 1


def mkcase(cid, img, rng, lazy=None, kind=None, meta=None):
    lazy = rng.choice([0, 1]) if lazy is None else lazy
    kind = rng.choice(["str", "str", "file"]) if kind is None else kind
    lines = [f"load {hx(img)} lazy={lazy} kind={kind}"] + observe_lines(img)
    return {"id": cid, "lines": lines, "meta": dict(meta or {}, img=img)}


def gen_cases(rng, tier):
    n = 120 if tier == "quick" else 1200
    for i in range(n):
        cls, enc = CFGS[i % 4]
        m = elfspec.random_model(rng, cls, enc)
        yield mkcase(f"g{i}", elfspec.encode(m), rng)
    for f, b in examples(65536 if tier == "quick" else None):
        if not elfspec.wellformed(b):
            continue
        for lazy in (0, 1):
            yield mkcase(f"ex-{f}-{lazy}", b, rng, lazy=lazy, kind="str", meta={"example": f})


def expected(img):
    d = elfspec.decode(img)
    if d is None:
        return None
    eh = d["ehdr"]
    hdr = {"class": img[4], "ver": img[6], "enc": img[5], "version": eh["e_version"], "ehsize": eh["e_ehsize"],
           "shentsize": eh["e_shentsize"], "phentsize": eh["e_phentsize"], "osabi": img[7], "abiver": img[8],
           "type": eh["e_type"], "machine": eh["e_machine"], "flags": eh["e_flags"], "entry": eh["e_entry"],
           "shoff": eh["e_shoff"], "phoff": eh["e_phoff"], "shstrndx": eh["e_shstrndx"],
           "nsec": eh["e_shnum"], "nseg": eh["e_phnum"]}
    secs = []
    for i, s in enumerate(d["sections"]):
        secs.append({"idx": i, "name": hx(s["name"] or b""), "nameoff": s["sh_name"], "type": s["sh_type"],
                     "flags": s["sh_flags"], "addr": s["sh_addr"], "off": s["sh_offset"], "size": s["sh_size"],
                     "link": s["sh_link"], "info": s["sh_info"], "align": s["sh_addralign"],
                     "entsize": s["sh_entsize"], "data": datastr(s["data"])})
    segs = []
    for j, g in enumerate(d["segments"]):
        segs.append({"idx": j, "type": g["p_type"], "flags": g["p_flags"], "off": g["p_offset"], "vaddr": g["p_vaddr"],
                     "paddr": g["p_paddr"], "filesz": g["p_filesz"], "memsz": g["p_memsz"], "align": g["p_align"],
                     "members": ",".join(map(str, g["members"])) or "-", "data": datastr(g["data"])})
    return hdr, secs, segs


def oracle(case, out):
    v = []
    img = case["meta"].get("img")
    if img is None:
        t = case["lines"][0].split()
        img = bytes.fromhex(t[1]) if t[1] != "-" else b""
    exp = expected(img)
    for i, o in enumerate(out):
        if o.startswith("FAULT"):
            return [{"signature": "fault:" + case["lines"][min(i, len(case["lines"]) - 1)].split()[0],
                     "what": f"{o} during `{case['lines'][min(i, len(case['lines'])-1)][:40]}`"}]
    if exp is None or not out:
        return v
    hdr, secs, segs = exp
    if not out[0].startswith("load=true"):
        return [{"signature": "wellformed-load-failed", "what": "a well-formed image failed to load: " + out[0]}]
    for ln, o in zip(case["lines"][1:], out[1:]):
        t = ln.split(); f = kvline(o)
        if t[0] == "hdr":
            e = hdr
        elif t[0] == "sec":
            k = int(t[1]); e = secs[k] if k < len(secs) else None
        elif t[0] == "seg":
            k = int(t[1]); e = segs[k] if k < len(segs) else None
        else:
            continue
        if e is None:
            if o != "null":
                v.append({"signature": "extra-" + t[0], "what": f"`{ln}` -> {o[:80]} but the file has no such entry"})
            continue
        for key, val in e.items():
            if str(f.get(key)) != str(val):
                v.append({"signature": f"{t[0]}-field:{key}",
                          "what": f"`{ln}`: {key}={f.get(key)} but the specification says {val}"})
                break
        if v:
            break
    return v


def nontrivial(case, out):
    return bool(out) and out[0].startswith("load=true") and sum(1 for o in out if o.startswith("idx=")) >= 2


def classify(case, out):
    t = case["lines"][0].split()
    ks = [x for x in t[2:]]
    if "example" in case["meta"]: ks.append("example")
    img = case["meta"].get("img", b"")
    if len(img) > 5: ks.append(f"cls{32 if img[4]==1 else 64}-{'lsb' if img[5]==1 else 'msb'}")
    ks.append("loaded" if out and out[0].startswith("load=true") else "not-loaded")
    return ks
