"""C15 — lazy loading and address translation do not change what is observed.

Proof (Props/C15.lean, helper lemmas in Lemmas/LoadSpec.lean), for ALL images / streams:
 * read primitive: `isolatedRead_state_independent`, `isolatedRead_depends_on_data_only` (bytes and
   completeness flag of the F9-fixed data read depend on the stream's bytes and kind only, not on
   position / eofbit / failbit / last count), `isolatedRead_flags_or` (flags afterwards = earlier OR new);
 * one section / one segment, any image, any translation table: `secGetData_lazy_eq_eager`,
   `segGetData_lazy_eq_eager` (a lazily loaded part, once requested on a stream in ANY state, shows what
   the eagerly loaded part shows: all header fields, name, whole data buffer, data size),
   `freeData_getData`, `interleaving_eq`, `seg_interleaving_eq` (list induction over any sequence of
   request / release / arbitrary disturbance of the stream's position and error state);
 * whole load, every stream (length < 2^63) under EVERY address translation table — no hypothesis on the
   table, on what the container holds (since the F16 repair) or on the result (since the F15 repair):
   `lazy_eq_eager` / `lazy_eq_eager_obs` : the lazy load() returns what the eager load() returns (both
   succeed or both refuse: `lazy_eq_eager_result`, `loadOk_lazy_eq_eager`) with the same header and, for every
   section and segment and any interleaving, the same observations (simulation of the two runs through the
   section loop `loadSectionsLoop_sim`, the name step `loadNames_sim`, the segment loop `loadSegmentsLoop_sim`,
   which now shows that both runs stop at the same program header).
   For well-formed images additionally `lazy_eq_eager_wf` (both modes = the specification, via C02);
 * address translation: `rangeRep_of_entry` (a range inside one table entry whose container image equals
   the plain bytes is represented), `translated_read_eq`, `translated_hdrRead_eq` (read level), and the
   full composition `load_eq_spec_tr` / `translated_eq_plain` : WellFormedImage img and
   `Represents cont table img` (every range the loader reads is represented) -> load on the container
   with the table succeeds and shows the same header, fields, names, members and data as load on the
   plain image (eager or lazy, either stream kind, independently on both sides).  Non-vacuity: a concrete
   container/table for the C02 example image satisfies `Represents` (`decide`).
 Former finding F15 (fixes/22-lazy-segment-range-check.patch): `segment_impl::load` called `load_data()` — and
 with it the tests of p_offset / p_filesz against the stream size — only when not lazy, and returned true
 otherwise: for a program header whose file range lies outside the stream the eager load() returned false and
 the lazy load() true.  The range tests now live in `segment_impl::is_file_range_valid()`, asked by `load_data()`
 and by the lazy path of `load` (model: `segRangeOk`; generated sites `seg*_range_*`, `seg*_load_data_range_bad`,
 `seg*_load_lazy_ret`).  Proved: `ElfioVerif.segLoadData_ok_eq_rangeOk` (on a freshly created segment
 `load_data()` returns exactly what the range test returns: once it passes, the read is inside the stream and
 complete), `ElfioVerif.segLoad_ok_lazy_eq_eager`, `segLoad_ok_sim`; `lazy_eq_eager` lost its hypothesis
 `re.ok = true`, the refuted statement `lazy_eq_eager_needs_ok` became the theorem `lazy_eq_eager_result`, and on
 the former witness both modes refuse: `lazy_load_unreadable_segment_agree`
 (corpus/c15/f15-lazy-loads-unreadable-segment.case stays as a regression case; `gen_unreadable_segment`
 generates the class on every run).
 Former finding F16 (fixes/16-stream-size-with-translator.patch): with a translation table `stream_size` was
 SIZE_MAX, so an eager load of a truncated container made a short data read, kept failbit and lost every later
 section header, while the lazy load read them.  The loader now records the real stream size with a table too
 (model: `streamSizeOf`, proved independent of the table: `streamSizeOf_tr_indep_ls`), which is what lets
 `lazy_eq_eager` drop its former hypothesis `o.trans = []`; on the former witness both modes agree:
 `lazy_eager_translated_truncated_agree` (corpus/c15/f16-translated-truncated-container.case).
Correspondence + oracle:
object 0 loads the image eagerly, object 1 lazily and is then driven through a random interleaving of
data requests and releases (length <= 24) before both are observed; object 2 loads a container
stream in which the image's pieces sit at displaced positions with a translation table (1-6 ranges
cut at table/section boundaries, random order, incl. ranges that map nothing); the oracle requires
identical observations.  A second stream of cases (`gen_translated_pairs`) loads ONE container eagerly
(object 0) and lazily (object 1) under the SAME table, where the container is intact, truncated, cut in
the middle of section/segment data, has table entries that map beyond its end or claim more than was
placed, or is byte-corrupted; the same lazy = eager oracle applies.  A third stream (`gen_unreadable_segment`)
patches one program header's p_offset / p_filesz so that the file range ends exactly at, one byte past, or far
beyond the end of the file (and PT_NULL / empty segments with such ranges, which both modes accept).
A different load() result in the two modes is a violation (`lazy-load-result`), whatever its direction.
dump text lazy-vs-eager is compared implementation-to-implementation only.
"""
from families.loadcommon import *

PROPERTY = "C15"
FAMILY = "load"
LEAN_MODULE = "ElfioVerif.Props.C15"
THEOREMS = ["ElfioVerif.C15.isolatedRead_state_independent", "ElfioVerif.C15.isolatedRead_depends_on_data_only",
            "ElfioVerif.C15.isolatedRead_flags_or",
            "ElfioVerif.C15.secGetData_lazy_eq_eager", "ElfioVerif.C15.freeData_getData",
            "ElfioVerif.C15.interleaving_eq",
            "ElfioVerif.C15.segGetData_lazy_eq_eager", "ElfioVerif.C15.seg_interleaving_eq",
            "ElfioVerif.C15.lazy_load_unreadable_segment_agree",
            "ElfioVerif.segLoadData_ok_eq_rangeOk", "ElfioVerif.segLoad_ok_lazy_eq_eager",
            "ElfioVerif.C15.segLoad_ok_sim",
            "ElfioVerif.C15.rangeRep_of_entry", "ElfioVerif.C15.translated_read_eq",
            "ElfioVerif.C15.translated_hdrRead_eq", "ElfioVerif.C15.lazy_eq_eager_wf",
            "ElfioVerif.C15.loadSectionsLoop_sim", "ElfioVerif.C15.loadNames_sim",
            "ElfioVerif.C15.loadSegmentsLoop_sim", "ElfioVerif.C15.lazy_eq_eager",
            "ElfioVerif.C15.lazy_eq_eager_obs", "ElfioVerif.C15.lazy_eq_eager_result",
            "ElfioVerif.C15.loadOk_lazy_eq_eager",
            "ElfioVerif.loadBody_rep", "ElfioVerif.load_gate_rep",
            "ElfioVerif.C15.represents_plain", "ElfioVerif.C15.load_eq_spec_tr",
            "ElfioVerif.C15.translated_eq_plain", "ElfioVerif.C15.lazy_eager_translated_truncated_agree",
            "ElfioVerif.streamSizeOf_tr_indep_ls"]
SITES = ["conv", "load_s", "sec32_load", "sec64_load", "seg32_load", "seg64_load", "seg32_range", "seg64_range"]
RULE = ("images: encoder-built well-formed (4 configurations), small bundled examples, and mutated images "
        "(tools/elfspec.mutate incl. truncation) — eager object vs lazy object under a random interleaving of "
        "`sec i`/`secfree i`/`seg j`/`segfree j` of length <= 24, then both fully observed; for well-formed images "
        "additionally a container stream with a translation table of 1-6 ranges; plus eager vs lazy under the same "
        "table on intact / truncated / cut-in-data / mapping-beyond-the-end / corrupted containers; plus images with one "
        "program header whose file range ends at / one byte past / far beyond the end of the file. non-trivial = the image loads "
        "and the interleaving contains at least one release followed by a request; distinct by md5")
ASSUMPTIONS = ["the stream stays open and unmodified while the lazily loaded object lives",
               "observations are compared after a successful load only (both modes now return the same result; "
               "the state of an object whose load() returned false is unspecified)",
               "translated = plain is claimed for well-formed images whose read ranges the table represents",
               "the stream can seek to its end (string- and regular-file-backed streams); for streams that cannot "
               "(/proc/<pid>/mem) the loader keeps stream_size = SIZE_MAX and the read bounds stay vacuous"]
TRUSTED = []
KEEP_FIRST = 2


def container(rng, img, last=None, force=()):
    """cut the image into 1-6 ranges at table/section boundaries and place them, shuffled and with
    gaps, in a container; returns (container bytes, table [(start,size,mapped)]).
    `force`: offsets that become cuts if no read range straddles them; `last`: the range holding
    this offset is placed at the end of the container"""
    d = elfspec.decode(img)
    cuts = {0, len(img)}
    if d:
        eh = d["ehdr"]; cls = d["cls"]
        # every contiguous read the loader performs must stay inside one range
        reads = [(0, elfspec.EHSIZE[cls])]
        reads += [(eh["e_shoff"] + i * eh["e_shentsize"], elfspec.SHSIZE[cls]) for i in range(eh["e_shnum"])]
        reads += [(eh["e_phoff"] + i * eh["e_phentsize"], elfspec.PHSIZE[cls]) for i in range(eh["e_phnum"])]
        reads += [(s["sh_offset"], s["sh_size"]) for s in d["sections"] if s["data"]]
        reads += [(g["p_offset"], g["p_filesz"]) for g in d["segments"] if g["data"]]
        cand = {a for a, n in reads} | {a + n for a, n in reads}
        cand = [c for c in cand if 0 < c < len(img) and not any(a < c < a + n for a, n in reads)]
        rng.shuffle(cand)
        cuts |= set(cand[:rng.randint(0, 5)]) | (set(force) & set(cand))
    cuts = sorted(cuts)
    ranges = [(cuts[i], cuts[i + 1] - cuts[i]) for i in range(len(cuts) - 1)]
    order = list(range(len(ranges))); rng.shuffle(order)
    if last is not None:
        hit = [i for i in order if ranges[i][0] <= last < ranges[i][0] + ranges[i][1]]
        order = [i for i in order if i not in hit] + hit
    cont = bytearray(rng.choice([0, 7, 64]))
    table = []
    for i in order:
        st, sz = ranges[i]
        cont += bytes(rng.randrange(256) for _ in range(rng.choice([0, 0, 3, 16])))
        table.append((st, sz, len(cont)))
        cont += img[st:st + sz]
    cont += bytes(rng.choice([0, 0, 5]))
    if rng.random() < 0.3:
        table.append((len(img) + 1000, 50, 0))      # a range that maps nothing
    if rng.random() < 0.4:
        # an EMPTY range that starts strictly inside a real one: it contains no offset, so the lookup must go on to
        # the real range around it (a lookup that only consults the last range starting at or before the offset
        # returns such offsets untranslated - seeded change c15-translator-upper-bound-lookup)
        big = [(st, sz) for st, sz, _ in table if sz >= 2 and st < len(img)]
        for st, sz in rng.sample(big, min(len(big), rng.randint(1, 2))):
            table.insert(rng.randrange(len(table) + 1), (st + rng.randrange(1, sz), 0, rng.randrange(0, len(cont) + 50)))
    return bytes(cont), table


def translated_pos(table, off):
    """address_translator::operator[] : first entry containing `off`, identity otherwise"""
    for st, sz, mp in table:
        if st <= off < st + sz:
            return off - st + mp
    return off


def damaged_container(rng, img):
    """a container + table for `img` that no longer represents it: the stream is shorter than the table
    promises, pieces are cut inside section/segment data, entries map beyond the end or claim more than
    was placed, bytes are corrupted.  returns (container, table, label)"""
    try:
        cont, table = container(rng, img)
    except Exception:
        cont, table = bytes(img), [(0, len(img), 0)]
    cont = bytearray(cont); table = list(table)
    k = rng.random()
    try:
        d = elfspec.decode(img)
    except Exception:
        d = None
    if k < 0.25 and len(cont) > 1:
        cont = cont[:rng.randrange(1, len(cont))]; how = "truncated"
    elif k < 0.5 and d:
        # cut in the middle of the data of one section / segment (at its translated position)
        rs = [(x["sh_offset"], x["sh_size"]) for x in d["sections"] if x["data"]] + \
             [(g["p_offset"], g["p_filesz"]) for g in d["segments"] if g["data"]]
        rs = [(a, n) for a, n in rs if n > 0]
        if rs:
            # the piece holding the victim's data goes last (so the other pieces, the tables among
            # them, survive) and is cut inside that data
            a, n = rng.choice(rs)
            try:
                c2, t2 = container(rng, img, last=a, force=(a, a + n))
                cont, table = bytearray(c2), list(t2)
            except Exception:
                pass
            cut = translated_pos(table, a) + rng.randrange(0, n)
            cont = cont[:max(1, min(cut, len(cont)))]
        how = "cut-in-data"
    elif k < 0.65:
        # one entry maps (partly or wholly) beyond the end of the stream
        i = rng.randrange(len(table)); st, sz, mp = table[i]
        table[i] = (st, sz, len(cont) - rng.randrange(0, sz + 1) + rng.choice([0, 0, 1, 100]))
        how = "maps-beyond-end"
    elif k < 0.75:
        # one entry claims more image bytes than were placed for it
        i = rng.randrange(len(table)); st, sz, mp = table[i]
        table[i] = (st, sz + rng.choice([1, 4, 64, 4096]), mp)
        how = "entry-too-long"
    elif k < 0.85:
        # the last placed piece is incomplete
        i = max(range(len(table)), key=lambda j: table[j][2]); st, sz, mp = table[i]
        if sz > 1 and mp < len(cont):
            cont = cont[:mp + rng.randrange(0, sz)]
        how = "last-piece-short"
    else:
        cont = bytearray(elfspec.mutate(rng, bytes(cont)) if len(cont) >= 16 else cont)
        how = "mutated-container"
    if not cont:
        cont = bytearray(1)
    return bytes(cont), table, how


def interleaving(rng, ns, ng):
    inter = []
    for _ in range(rng.randint(0, 24)):
        k = rng.random()
        if k < 0.4 and ns: inter.append(f"sec {rng.randrange(ns)}")
        elif k < 0.7 and ns: inter.append(f"secfree {rng.randrange(ns)}")
        elif k < 0.85 and ng: inter.append(f"seg {rng.randrange(ng)}")
        elif ng: inter.append(f"segfree {rng.randrange(ng)}")
    return inter


def gen_translated_pairs(rng, tier):
    """eager vs lazy under the SAME translation table, on containers that are intact, truncated or
    otherwise damaged (the lazy = eager clause does not care whether the table is a faithful one)"""
    n = 60 if tier == "quick" else 600
    for i in range(n):
        cls, enc = CFGS[i % 4]
        img = elfspec.encode(elfspec.random_model(rng, cls, enc))
        wf = True
        if rng.random() < 0.25:
            img = elfspec.mutate(rng, img); wf = False
        if rng.random() < 0.15:
            try:
                cont, table = container(rng, img)
            except Exception:
                cont, table = img, [(0, len(img), 0)]
            how = "intact"
        else:
            cont, table, how = damaged_container(rng, img)
        ns, ng = counts(img)
        obs = observe_lines(img, max_sec=24, max_seg=8)
        inter = interleaving(rng, ns, ng)
        kind = rng.choice(["str", "str", "file"])
        tl = "trans " + " ".join(f"{a} {b} {c}" for a, b, c in table)
        lines = ["obj 0", tl, f"load {hx(cont)} lazy=0 kind={kind}"] + obs + \
                ["obj 1", tl, f"load {hx(cont)} lazy=1 kind={kind}"] + inter + obs
        yield {"id": f"t{i}", "lines": lines,
               "meta": {"nobs": len(obs), "ninter": len(inter), "wf": wf, "trans": False, "tpair": True,
                        "damage": how}}


def gen_failed_tail(rng, tier):
    """images without program headers whose section header table runs past the end of the file (e_shnum one
    or two too large, or the file cut inside the last section header): load() still succeeds, but the
    stream is left in a failed state, and a lazy object must nevertheless deliver every section's data and
    name later on (seeded change c15-lazy-load-data-no-clear; the repair f5c108a is what makes this hold)"""
    n = 24 if tier == "quick" else 240
    for i in range(n):
        cls, enc = CFGS[i % 4]
        img = bytearray(elfspec.encode(elfspec.random_model(rng, cls, enc, nsec=rng.randint(3, 7), nseg=0)))
        eh = elfspec.unpack(elfspec.EHDR[cls], img, 16, enc)
        shoff, shnum, shes = eh["e_shoff"], eh["e_shnum"], eh["e_shentsize"]
        if shnum < 2 or shes == 0:
            continue
        end = shoff + shnum * shes
        numoff = 16 + sum(w for nme, w in elfspec.EHDR[cls][:[nme for nme, _ in elfspec.EHDR[cls]].index("e_shnum")])
        if end == len(img) and rng.random() < 0.6:
            img[numoff:numoff + 2] = elfspec.put(shnum + rng.choice([1, 1, 2]), 2, enc); how = "shnum+"
        else:
            cut = shoff + (shnum - 1) * shes + rng.randrange(1, shes)
            if cut >= len(img):
                continue
            img = img[:cut]; how = "cut-last-shdr"
        img = bytes(img)
        ns, ng = counts(img)
        obs = observe_lines(img, max_sec=24, max_seg=8)
        inter = interleaving(rng, ns, ng)
        kind = rng.choice(["str", "str", "file"])
        lines = ["obj 0", f"load {hx(img)} lazy=0 kind={kind}"] + obs + \
                ["obj 1", f"load {hx(img)} lazy=1 kind={kind}"] + inter + obs
        yield {"id": f"ft{i}", "lines": lines, "meta": {"nobs": len(obs), "ninter": len(inter), "wf": False, "trans": False,
                                                         "damage": how}}


def gen_unreadable_segment(rng, tier):
    """one program header whose file range does not fit into the file (or just fits, or belongs to a PT_NULL /
    empty segment, which has nothing to read): load() must answer the same in both modes (former finding F15:
    the lazy load accepted what the eager load refused)"""
    n = 40 if tier == "quick" else 400
    for i in range(n):
        cls, enc = CFGS[i % 4]
        img = bytearray(elfspec.encode(elfspec.random_model(rng, cls, enc, nseg=rng.randint(1, 3))))
        eh = elfspec.unpack(elfspec.EHDR[cls], img, 16, enc)
        if eh["e_phnum"] == 0 or eh["e_phentsize"] < elfspec.PHSIZE[cls]:
            continue
        j = rng.randrange(eh["e_phnum"]); rec = eh["e_phoff"] + j * eh["e_phentsize"]
        pos = {}; o = rec
        for nme, w in elfspec.PHDR[cls]:
            pos[nme] = (o, w); o += w
        if o > len(img):
            continue
        full = (1 << (8 * pos["p_offset"][1])) - 1
        L = len(img)
        how = rng.choice(["fits-exactly", "one-past", "offset-at-end", "offset-past-end", "size-huge", "offset-huge",
                          "wraps", "null-wild", "empty-wild"])
        ptype = rng.choice([1, 1, 1, 2, 4, 6, 0x6474e551])
        off, fsz = {
            "fits-exactly":    (lambda a: (a, L - a))(rng.randrange(0, L)),
            "one-past":        (lambda a: (a, L - a + 1))(rng.randrange(0, L)),
            "offset-at-end":   (L, rng.choice([1, 4, 4096])),
            "offset-past-end": (L + rng.choice([1, 7, 1000, 1 << 20]), rng.choice([1, 4, 64])),
            "size-huge":       (rng.randrange(0, L), rng.choice([full, full - 1, (full + 1) >> 1, L + 1, 1 << 24])),
            "offset-huge":     (rng.choice([full, full - 3, (full + 1) >> 1]), rng.choice([1, 4, full])),
            "wraps":           (lambda a: (a, full + 1 - a + rng.choice([0, 1, 5])))(rng.randrange(1, L)),
            "null-wild":       (L + 1000, 4096),
            "empty-wild":      (L + 1000, 0),
        }[how]
        if how == "null-wild":
            ptype = 0
        for nme, val in (("p_type", ptype), ("p_offset", off), ("p_filesz", fsz)):
            a, w = pos[nme]
            img[a:a + w] = elfspec.put(val, w, enc)
        img = bytes(img)
        ns, ng = counts(img)
        obs = observe_lines(img, max_sec=24, max_seg=8)
        inter = interleaving(rng, ns, ng)
        kind = rng.choice(["str", "str", "file"])
        lines = ["obj 0", f"load {hx(img)} lazy=0 kind={kind}"] + obs + \
                ["obj 1", f"load {hx(img)} lazy=1 kind={kind}"] + inter + obs
        yield {"id": f"us{i}", "lines": lines, "meta": {"nobs": len(obs), "ninter": len(inter), "wf": False, "trans": False,
                                                         "useg": how}}


def gen_cases(rng, tier):
    yield from gen_plain(rng, tier)
    yield from gen_translated_pairs(rng, tier)
    yield from gen_failed_tail(rng, tier)
    yield from gen_unreadable_segment(rng, tier)


def gen_plain(rng, tier):
    n = 80 if tier == "quick" else 800
    ex_small = [b for f, b in examples(20000)]
    for i in range(n):
        cls, enc = CFGS[i % 4]
        r = rng.random()
        wf = True
        if r < 0.6:
            img = elfspec.encode(elfspec.random_model(rng, cls, enc))
        elif r < 0.8 and ex_small:
            img = rng.choice(ex_small); wf = elfspec.wellformed(img)
        else:
            img = elfspec.mutate(rng, elfspec.encode(elfspec.random_model(rng, cls, enc))); wf = False
        ns, ng = counts(img)
        obs = observe_lines(img, max_sec=24, max_seg=8)
        inter = interleaving(rng, ns, ng)
        kind = rng.choice(["str", "str", "file"])
        lines = ["obj 0", f"load {hx(img)} lazy=0 kind={kind}"] + obs + \
                ["obj 1", f"load {hx(img)} lazy=1 kind={kind}"] + inter + obs
        meta = {"nobs": len(obs), "ninter": len(inter), "wf": wf, "trans": False}
        if wf and rng.random() < 0.7:
            cont, table = container(rng, img)
            tl = "trans " + " ".join(f"{a} {b} {c}" for a, b, c in table)
            lines += ["obj 2", tl, f"load {hx(cont)} lazy={rng.choice([0, 1])} kind=str"] + obs
            meta["trans"] = True
        yield {"id": f"c{i}", "lines": lines, "meta": meta}


def strip_allocs(l):
    return l.split(" allocs=")[0]


def oracle(case, out):
    for i, o in enumerate(out):
        if o.startswith("FAULT"):
            return [{"signature": "fault:" + case["lines"][min(i, len(case["lines"]) - 1)].split()[0], "what": o}]
    n = case["meta"]["nobs"]; m = case["meta"]["ninter"]
    p = 1 if case["meta"].get("tpair") else 0        # a `trans` line precedes each `load`
    need = 2 + p + n + 2 + p + m + n
    if len(out) < need:
        return []
    r0 = strip_allocs(out[1 + p]); e = out[2 + p:2 + p + n]
    r1 = strip_allocs(out[3 + 2 * p + n]); l = out[4 + 2 * p + n + m:4 + 2 * p + n + m + n]
    v = []
    if r0 != r1:
        v.append({"signature": "lazy-load-result", "what": f"eager {r0} vs lazy {r1}"})
    elif r0.startswith("load=true"):   # after a failed load the object's state is unspecified
        for ln, a, b in zip(case["lines"][2 + p:2 + p + n], e, l):
            if a != b:
                v.append({"signature": "lazy-observation:" + ln.split()[0], "what": f"`{ln}`: eager {a[:100]} | lazy {b[:100]}"}); break
    if case["meta"]["trans"] and not v and len(out) >= need + 3 + n:
        r2 = strip_allocs(out[need + 2]); t = out[need + 3:need + 3 + n]
        if not r0.startswith("load=true"):
            pass
        elif r2 != r0:
            v.append({"signature": "translated-load-result", "what": f"plain {r0} vs translated {r2}"})
        else:
            for ln, a, b in zip(case["lines"][2:2 + n], e, t):
                if a != b:
                    v.append({"signature": "translated-observation:" + ln.split()[0], "what": f"`{ln}`: plain {a[:100]} | translated {b[:100]}"}); break
    return v


def loaded(case, out):
    p = 1 if case["meta"].get("tpair") else 0
    return len(out) > 1 + p and out[1 + p].startswith("load=true")


def nontrivial(case, out):
    ls = case["lines"]
    ok = loaded(case, out)
    freed = False
    for l in ls:
        if l.startswith("secfree") or l.startswith("segfree"): freed = True
        elif freed and (l.startswith("sec ") or l.startswith("seg ")): return ok
    return False


def classify(case, out):
    ks = ["wf" if case["meta"]["wf"] else "mutated"]
    if case["meta"]["trans"]: ks.append("translated")
    if case["meta"].get("tpair"): ks += ["translated-pair", "container:" + case["meta"].get("damage", "?")]
    if case["meta"].get("useg"): ks.append("segment-range:" + case["meta"]["useg"])
    ks.append("loaded" if loaded(case, out) else "rejected")
    return ks
