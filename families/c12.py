"""C12 — dynamic sections round-trip and end at the first DT_NULL.

Proved in Lean (Props/C12.lean + Lemmas/Dynamic.lean) about Model/Dynamic.lean = the accessor *object*
with its mutable cached count, the dynamic section and the linked string table as C07 `SecBuf`s; every
guard / loop bound / offset / width conversion / tag classification is a generated site of
Gen/SitesC12.lean (regenerated from the source each run), record fields sit at Gen/Layout offsets:
  * `dyn_roundtrip`  for ANY interleaving of add(tag,value) / add(tag,string) / get_entries_num /
        get_entry(i) on one accessor object, from any consistent state `Good` (cached count = 0 or the
        count of the *current* section): no fault, outputs = reference semantics `Spec.dynRun`, `Good`
        again afterwards, section grew by one gABI record per add.  Induction over the op list
        (`step_ok` = one operation).  Hypotheses: `Good`, whole records (`len % sizeof(Dyn) = 0`),
        `Fits` (sections < 4 GiB).
  * `create_good`, `reload_good`, `fresh_good`  a created / saved-and-reloaded / newly constructed
        accessor is `Good`, so the above covers "the accessor that added it or a new one".
  * `added_tracked`, `get_added`, `normEntry_id`  in the reference semantics the k-th added item is the
        k-th entry for ever; get(k), k below the count, returns the k-th added (tag, value) and, for a
        tag+string add under a string-valued tag, that string; in-domain entries come back unchanged.
  * `num_def`, `num_le_held`  reported count = min(size/entsize, first DT_NULL + 1) <= size/entsize.
  * `dyn_bytes` (+ `mkRec32_eq`, `mkRec64_eq`, `decode_encodeDyn`, `entry_roundtrip`)  section content
        = concatenation of `Spec.encodeDyn` (gABI encoder; via wrField_eq / rdField_eq).
  * `get_total`  get_entry never faults, any index.  `nodata_fabricates`  a section with a size but no
        data (loaded SHT_NOBITS) reports exactly one all-zero DT_NULL entry - what the code does.
  * `kind_zero`, `string_tag_iff`  the generated switch / if agree with the gABI tag sets (d_un ignored:
        DT_NULL, SYMBOLIC, TEXTREL, BIND_NOW; string-valued: DT_NEEDED, SONAME, RPATH, RUNPATH).
Stated domain: tags are signed class-width values - an ELF32 tag >= 2^31 reads back sign-extended to
64 bits (`Spec.sextTag`, `TagFits`); values are class-width; d_un of the four "ignored" tags is stored
and read as 0; a string-valued tag added as tag+value resolves iff the value is an offset of a string
in the linked table (32-bit offsets: ELF64 values >= 2^32 wrap - documented quirk, corpus case).
Only covered by correspondence + this oracle: "after save and reload" end to end (the harness really
saves and loads; the model's `reload` abstracts writer+loader), sh_entsize != sizeof(Dyn), truncated
sh_link.  Finding F2 (stale cached count after add_entry) is repaired by
fixes/02-dynamic-stale-count.patch; on the unfixed tree this oracle reports it (num-mismatch /
get-mismatch) and the site `dynNN_add_invalidate` is translation-broken.
"""
import itertools

PROPERTY = "C12"
FAMILY = "c12"
LEAN_MODULE = "ElfioVerif.Props.C12"
THEOREMS = ["ElfioVerif.C12." + t for t in (
    "dyn_roundtrip", "step_ok", "fresh_good", "create_good", "reload_good", "added_tracked", "get_added",
    "normEntry_id", "num_def", "num_le_held", "dyn_bytes", "get_total", "nodata_fabricates",
    "entry_roundtrip", "decode_encodeDyn", "mkRec32_eq", "mkRec64_eq", "kind_zero", "string_tag_iff",
    "strAt_strAdd", "strAt_strAdd_mono")]
SITES = ["dyn_", "dyn32_", "dyn64_", "dynstr_"]
RULE = ("sequences of 0-30 added entries (standard d_val / d_ptr tags, d_un-ignored tags, string-valued tags "
        "added as tag+string and as tag+offset (valid and invalid offsets), OS- and processor-specific tags, "
        "ELF32 tags >= 2^31, full-width values) with DT_NULL at a random / at every position, interleaved with "
        "num/get on the adding accessor and on new accessors, then full read-out, dump, save+reload, full "
        "read-out again, x{ELF32,ELF64}x{LSB,MSB}; exhaustive: all op sequences of length <= 3 (thorough 4/5) "
        "over a 7-op alphabet x 4 configurations; a few out-of-domain set-ups (entsize 0/too small/too large, "
        "no/wrapped link, NOBITS). non-trivial = some get returned an added non-null entry; distinct by md5")
ASSUMPTIONS = ["sh_entsize = sizeof(ElfN_Dyn) and a non-NOBITS section for the round-trip claims (writer's duty)",
               "sh_link is the .dynstr index or out of range",
               "string table < 4 GiB; section sizes < 2^32 (explicit hypotheses of the theorems)",
               "a string-valued tag added as tag+value resolves iff the value is an offset of a string in the linked table"]
TRUSTED = ["DynAcc.reload / reloadSec abstract save+load of the two sections (tied by the harness really saving and reloading)",
           "C07 SecBuf model for append_data"]
KEEP_FIRST = 1

IGN = {0, 16, 22, 24}
STRV = {1, 14, 15, 29}
VAL_TAGS = [2, 8, 9, 10, 11, 18, 19, 20, 27, 28, 30, 33]
PTR_TAGS = [3, 4, 5, 6, 7, 12, 13, 17, 21, 23, 25, 26, 32]
OS_TAGS = [0x6000000D, 0x6ffff000, 0x6ffffef5, 0x6ffffff0, 0x6ffffff9, 0x6ffffffb, 0x6ffffffe, 0x6fffffff,
           0x70000000, 0x70000001, 0x7fffffff, 34, 35, 0x6fffffee]
M64 = (1 << 64) - 1


def hx(b):
    return b.hex() if b else "-"


def unhx(h):
    return b"" if h == "-" else bytes.fromhex(h)


def esz(cls):
    return 8 if cls == 32 else 16


# ------------------------------------------------------------------ reference semantics (gABI)

def sext_tag(cls, t):
    t &= M64
    if cls == 64:
        return t
    x = t & 0xFFFFFFFF
    return x if x < (1 << 31) else x | 0xFFFFFFFF00000000


def trunc_val(cls, v):
    return v & (0xFFFFFFFF if cls == 32 else M64)


def enc_int(enc, n, x):
    return (x & ((1 << (8 * n)) - 1)).to_bytes(n, "little" if enc == "lsb" else "big")


def str_at(tbl, off):
    if tbl is None or off >= len(tbl):
        return None
    e = tbl.find(b"\0", off)
    return None if e < 0 else tbl[off:e]


class Ref:
    """what the property demands of an accessor on a section with entsize = sizeof(Dyn)"""

    def __init__(self, cls, enc, has_tbl):
        self.cls, self.enc = cls, enc
        self.es = []            # (tag, value) as a reader must see them
        self.raw = b""          # expected section bytes
        self.bytes_ok = True
        self.tbl = b"" if has_tbl else None

    def add(self, t, v):
        tt = sext_tag(self.cls, t)
        vv = 0 if tt in IGN else trunc_val(self.cls, v)
        self.es.append((tt, vv))
        if tt != (t & M64):
            self.bytes_ok = False      # tag outside the signed class-width domain: no byte-level claim
        w = esz(self.cls) // 2
        self.raw += enc_int(self.enc, w, tt) + enc_int(self.enc, w, vv)

    def adds(self, t, s):
        cs = s.split(b"\0")[0]
        if self.tbl is None:
            pos = 0
        else:
            if len(self.tbl) == 0:
                self.tbl = b"\0"
            pos = len(self.tbl)
            self.tbl += cs + b"\0"
        self.add(t, pos)

    def count(self):
        for i, (t, _) in enumerate(self.es):
            if t == 0:
                return i + 1
        return len(self.es)

    def get(self, i):
        if i >= self.count():
            return "invalid"
        t, v = self.es[i]
        if t in STRV:
            s = str_at(self.tbl, v & 0xFFFFFFFF)
            if s is None:
                return f"nostr tag={t} value={v}"
            return f"ok tag={t} value={v} str={hx(s)}"
        return f"ok tag={t} value={v} str=-"


def parse_setup(line):
    t = line.split()
    kv = dict(x.split("=", 1) for x in t[1:] if "=" in x)
    cls = int(kv.get("cls", "64"))
    return cls, kv.get("enc", "lsb"), int(kv.get("entsize", "0"), 0), kv.get("link", "str"), int(kv.get("type", "6"), 0)


def oracle(case, out):
    v = []
    lines = case["lines"]
    cls, enc, entsize, link, ty = parse_setup(lines[0])
    in_dom = entsize == esz(cls) and ty not in (0, 8)
    ref = Ref(cls, enc, link != "none")
    size = 0
    for i, ln in enumerate(lines):
        if i >= len(out):
            break
        o = out[i]
        t = ln.split()
        op = t[0]
        if o.startswith("FAULT"):
            v.append({"signature": "fault:" + op, "what": f"memory fault / crash during `{ln[:60]}` (line {i}): {o[:120]}"})
            return v
        if o.startswith("bad-op"):
            v.append({"signature": "bad-op:" + op, "what": f"`{ln[:60]}` could not be executed: {o}"})
            return v
        if op == "dyn":
            continue
        if op == "settype":
            ty = int(t[1], 0)
            if ty in (0, 8):
                in_dom = False
            continue
        f = dict(x.split("=", 1) for x in o.split() if "=" in x)
        if op in ("add", "adds"):
            if op == "add":
                ref.add(int(t[1], 0), int(t[2], 0))
            else:
                ref.adds(int(t[1], 0), unhx(t[2]))
            if "size" in f:
                size = int(f["size"])
            if in_dom and size != len(ref.raw):
                v.append({"signature": "size-mismatch", "what": f"after `{ln[:50]}` section size {size}, expected {len(ref.raw)}"})
                return v
            continue
        if op in ("num", "fnum"):
            n = int(f.get("num", "-1"))
            held = size // entsize if entsize else 0
            if n > held:
                v.append({"signature": "num-exceeds-held", "what": f"line {i} `{ln}`: reported {n} entries, section holds {held}"})
                return v
            if in_dom and n != ref.count():
                v.append({"signature": "num-mismatch", "what": f"line {i} `{ln}` reported {n} entries, expected {ref.count()} "
                          f"(added {len(ref.es)}, first DT_NULL at {next((k for k, e in enumerate(ref.es) if e[0] == 0), None)})"})
                return v
            continue
        if op in ("get", "fget"):
            if in_dom:
                e = ref.get(int(t[1], 0))
                if o != e:
                    v.append({"signature": "get-mismatch", "what": f"line {i} `{ln}` returned `{o[:80]}`, expected `{e[:80]}`"})
                    return v
            continue
        if op == "dump":
            if in_dom and ref.bytes_ok:
                if f.get("dyn") != hx(ref.raw):
                    v.append({"signature": "bytes-mismatch", "what": f"section bytes {f.get('dyn', '')[:64]}.. expected {hx(ref.raw)[:64]}.."})
                    return v
                es = "none" if ref.tbl is None else hx(ref.tbl)
                if f.get("str") != es:
                    v.append({"signature": "strtab-mismatch", "what": f"string table {f.get('str', '')[:64]} expected {es[:64]}"})
                    return v
            continue
    if len(out) > len(lines) and out[len(lines)].startswith("FAULT"):
        v.append({"signature": "fault:end", "what": out[len(lines)][:120]})
    return v


# ------------------------------------------------------------------ generator

def rand_val(rng, cls):
    k = rng.random()
    top = 32 if cls == 32 else 64
    if k < 0.2: return rng.choice([0, 1, (1 << top) - 1, 1 << (top - 1), (1 << (top - 1)) - 1, 0xFFFFFFFF, 0x100000000 & ((1 << top) - 1)])
    if k < 0.5: return rng.randrange(1 << top)
    if k < 0.8: return rng.randrange(1 << 16)
    if k < 0.95: return rng.randrange(1 << 32)
    return rng.randrange(1 << 64)        # ELF32: beyond the class width (truncation, documented)


def rand_str(rng):
    n = rng.choice([0, 1, 1, 3, 5, 8, 12, 40])
    alphabet = b"abcdefghijklmnopqrstuvwxyz./_-0123456789"
    s = bytes(rng.choice(alphabet) for _ in range(n))
    if rng.random() < 0.04 and n > 2:
        s = s[:1] + b"\0" + s[2:]      # embedded NUL: c_str() ends there
    if rng.random() < 0.05:
        s = bytes(rng.randrange(1, 256) for _ in range(n))
    return s


def rand_entry(rng, cls, st):
    """one `add`/`adds` line; st tracks the string table size for valid offsets"""
    k = rng.random()
    if k < 0.18:
        t = rng.choice(VAL_TAGS)
    elif k < 0.36:
        t = rng.choice(PTR_TAGS)
    elif k < 0.52:
        t = rng.choice(OS_TAGS)
    elif k < 0.58:
        t = rng.choice([16, 22, 24])
        return f"add {t} {0 if rng.random() < 0.7 else rand_val(rng, cls)}"
    elif k < 0.63:
        # high tags: ELF32 sign-extending patterns, ELF64 full width
        if cls == 32:
            x = rng.choice([0x80000000, 0xFFFFFFFF, 0x80000001, rng.randrange(1 << 31, 1 << 32)])
            t = x | 0xFFFFFFFF00000000 if rng.random() < 0.8 else x     # the latter is not a signed 32-bit pattern
        else:
            t = rng.choice([1 << 63, M64, (1 << 63) - 1, rng.randrange(1 << 64), 0x80000000, 0xFFFFFFFF])
    elif k < 0.85:
        t = rng.choice([1, 1, 14, 15, 29])
        s = rand_str(rng)
        if st["tbl"] is not None:
            if st["tbl"] == 0: st["tbl"] = 1
            st["offs"].append(st["tbl"]); st["tbl"] += len(s.split(b"\0")[0]) + 1
        return f"adds {t} {hx(s)}"
    elif k < 0.95:
        t = rng.choice([1, 14, 15, 29])
        if st["offs"] and rng.random() < 0.7:
            o = rng.choice(st["offs"]) + rng.choice([0, 0, 1])
        else:
            o = rng.choice([0, st["tbl"] or 0, (st["tbl"] or 0) + 1, 1 << 20, 0xFFFFFFFF, rand_val(rng, cls)])
        return f"add {t} {o}"
    else:
        t = rng.choice([31, 36, 100, 0x12345678, 0x5fffffff])
    return f"add {t} {rand_val(rng, cls)}"


def setup(rng, cls=None, enc=None, **kw):
    cls = cls or rng.choice([32, 64]); enc = enc or rng.choice(["lsb", "msb"])
    es = kw.get("entsize", esz(cls))
    return f"dyn cls={cls} enc={enc} entsize={es} link={kw.get('link', 'str')} type={kw.get('type', 6)}", cls


def readout(n, fresh):
    p = "f" if fresh else ""
    return [p + "num"] + [f"{p}get {i}" for i in range(n + 2)]


def gen_cases(rng, tier):
    quick = tier == "quick"
    # 1. random histories
    for i in range(260 if quick else 2600):
        first, cls = setup(rng, link="none" if rng.random() < 0.04 else "wrap" if rng.random() < 0.03 else "str")
        has_tbl = "link=none" not in first
        st = {"tbl": 0 if has_tbl else None, "offs": []}
        n = rng.randint(0, 30) if rng.random() < 0.8 else rng.randint(0, 4)
        null_at = rng.randrange(n + 1) if n and rng.random() < 0.6 else None
        lines = [first]
        if rng.random() < 0.4: lines.append("num")
        for k in range(n):
            lines.append("add 0 0" if k == null_at else rand_entry(rng, cls, st))
            r = rng.random()
            if r < 0.12: lines.append("num")
            elif r < 0.24: lines.append(f"get {rng.randint(0, k + 1)}")
            elif r < 0.28: lines.append("fnum")
            elif r < 0.32: lines.append(f"fget {rng.randint(0, k + 1)}")
            elif r < 0.34: lines.append(f"get {rng.choice([M64, 1 << 32, 1 << 63, (1 << 60) + k])}")
        lines += readout(n, False) + readout(n, True) + ["dump", "reload"] + readout(n, False) + ["dump"]
        if rng.random() < 0.3:
            for _ in range(rng.randint(1, 3)):
                lines.append(rand_entry(rng, cls, st))
                if rng.random() < 0.5: lines.append("num")
            lines += readout(n + 3, False) + ["dump"]
        yield {"id": f"r{i}", "lines": lines, "meta": {}}
    # 2. DT_NULL at every position, with and without a count query before / between the adds
    k = 0
    for cls in (32, 64):
        for enc in ("lsb", "msb"):
            for n in (range(0, 6) if quick else range(0, 11)):
                for p in range(n + 1):
                    for pre in ((0, 2) if quick else (0, 1, 2)):
                        lines = [f"dyn cls={cls} enc={enc} entsize={esz(cls)} link=str type=6"]
                        if pre == 1: lines.append("num")
                        for j in range(n):
                            lines.append("add 0 0" if j == p else f"add {3 + j} {4096 + j}")
                            if pre == 2: lines.append("num")
                        lines += readout(n, False) + readout(n, True) + ["dump", "reload"] + readout(n, False)
                        yield {"id": f"n{k}", "lines": lines, "meta": {"nullpos": True}}
                        k += 1
    # 3. exhaustive small scope: every interleaving of length <= L over a small alphabet
    alpha = ["add 3 4096", "add 0 0", "adds 1 6162", "add 14 1", "num", "get 0", "get 1"]
    L = 3 if quick else 4
    k = 0
    for cls in (32, 64):
        for enc in ("lsb", "msb"):
            LL = L + 1 if (not quick and cls == 64 and enc == "lsb") else L
            for ln in range(0, LL + 1):
                for seq in itertools.product(alpha, repeat=ln):
                    yield {"id": f"x{k}", "lines": [f"dyn cls={cls} enc={enc} entsize={esz(cls)} link=str type=6"] + list(seq)
                           + ["num", "get 0", "get 1", "get 2", "fget 2", "dump"], "meta": {"exhaustive": True}}
                    k += 1
    # 4. outside the writer's domain: must stay memory-safe, count never exceeds what is held
    k = 0
    for cls in (32, 64):
        for enc in ("lsb", "msb"):
            for kw in ({"entsize": 0}, {"entsize": 4}, {"entsize": esz(cls) - 1}, {"entsize": esz(cls) + 8},
                       {"entsize": 3 * esz(cls)}, {"type": 8}, {"type": 0}, {"entsize": 16 if cls == 32 else 8}):
                first, _ = setup(rng, cls, enc, **kw)
                st = {"tbl": 0, "offs": []}
                lines = [first, "num", "get 0"]
                for _ in range(rng.randint(1, 6)):
                    lines.append(rand_entry(rng, cls, st))
                    if rng.random() < 0.4: lines.append("num")
                lines += readout(7, False) + readout(7, True) + ["dump", "reload"] + readout(7, False) + ["dump"]
                yield {"id": f"o{k}", "lines": lines, "meta": {"out_of_domain": True}}
                k += 1
            # NOBITS after the fact: data is not saved, the reloaded section has a size but no data
            lines = [f"dyn cls={cls} enc={enc} entsize={esz(cls)} link=str type=6", "add 3 1", "add 5 2", "add 0 0", "add 6 3",
                     "num", "settype 8", "num", "get 1", "reload"] + readout(4, False) + ["add 7 7"] + readout(4, False) + ["dump"]
            yield {"id": f"o{k}", "lines": lines, "meta": {"out_of_domain": True}}
            k += 1


def nontrivial(case, out):
    return any(o.startswith("ok tag=") and not o.startswith("ok tag=0 ") for o in out)


def classify(case, out):
    cls, enc, entsize, link, ty = parse_setup(case["lines"][0])
    ks = [f"cfg:{cls}{enc}"]
    if entsize != esz(cls) or ty in (0, 8): ks.append("out-of-domain")
    if link != "str": ks.append("link:" + link)
    nadd = sum(1 for l in case["lines"] if l.startswith("add"))
    ks.append("entries:" + ("0" if nadd == 0 else "1-5" if nadd <= 5 else "6-15" if nadd <= 15 else "16-33"))
    if any(l == "add 0 0" for l in case["lines"]): ks.append("has-dt-null")
    if any(l.startswith("adds") for l in case["lines"]): ks.append("has-string-add")
    if "reload" in case["lines"]: ks.append("reload")
    if any(o.startswith("nostr") for o in out): ks.append("unresolved-string-offset")
    if any(o.startswith("FAULT") for o in out): ks.append("fault")
    return ks
