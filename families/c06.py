"""C06 — saving is deterministic and idempotent.

Proof (Props/C06.lean; details in that file's header): `save_twice_witness` (F13 machine-checked),
`save_twice_no_segments` (any class: save of a segment-less object is idempotent on its own output),
`save_twice` / `save_idempotent_on_settled` (ELF64, flat or nested segments, none at file offset 0, side
conditions `ResaveOk` = no F13 trigger and non-zero segment starts: a second successful save returns the
same result), with the ladder `stepCore_resave` .. `segRun_resave`.
ANY CLASS (Props/C06Cls.lean): `save_twice_cls` / `save_idempotent_on_settled_cls` are save_twice for ELF32 and
ELF64 alike (ladder `stepCore_resave_cls` .. `segRun_resave_cls`), under `ResaveOkC` = ResaveOk plus two side
conditions that only bite in ELF32: an address the writer assigns to a member fits the 32-bit field (else the
second save derives the gap from the truncated address), and every segment's start offset fits the 32-bit field
(else the stored p_offset is not where the segment was laid out).  `resaveOkC_of_c64`: in ELF64 ResaveOkC is
ResaveOk (save_twice_cls contains save_twice).  `resaveOkB`/`resaveOkC_of_B`: a Bool-valued sufficient condition;
`exObj32_resave`: an ELF32 big-endian object with a PT_LOAD, a nested segment and a loose section meets every
hypothesis and both saves succeed.
SEGMENTS AT FILE OFFSET 0 (same file): `save_twice_front` / `save_idempotent_front` replace `NoZeroOffset` by
`FrontOk` = NoZeroOffset OR AllOffsetSet (every segment's offset is initialised - every loaded or previously saved
object - and a section-less PT_PHDR is not at offset 0): the first loop of get_ordered_segments (`orderFront`) then
reads of a segment only whether its offset is 0, a save keeps that (`SegRun.front_cls`), so the loop commutes with
the save (`orderFront_go_map`, `orderedSegments_map_front`; `orderedSegments_perm_any`: the order is a permutation
with or without offset-0 segments).  `exLoadedLike_resave`: a loader-like object whose first PT_LOAD is at offset 0
meets the hypotheses and both saves succeed.  Observation (not reachable through the public API, so not a
finding): orderFront tests `worklist[nextSlot]->get_offset() == 0` WITHOUT is_offset_initialized(); a never-laid-out
segment listed before a segment at offset 0 would be ordered differently by the second save - segments.add only
appends and set_offset is protected, so such a list cannot be built.  Stated, not proved:
`SaveLoadSaveStatement`.  Correspondence: family load.
Oracle: bytes of the first save == bytes of a second save of the same object; bytes of
save(load(save(obj))) == bytes of save(obj).  Known open finding F13 (address-less NOBITS member with
an alignment gap: the first save advances the file cursor by the gap, later saves do not) is keyed by
its trigger and reported as KNOWN-FINDING; any other difference is a violation.
"""
from families.writercommon import *
from families import c03 as _c03

PROPERTY = "C06"
FAMILY = "load"
LEAN_MODULE = "ElfioVerif.Props.C06Cls"
THEOREMS = ["ElfioVerif.C06.save_twice_witness",
            "ElfioVerif.C06.save_twice_witness_offsets",
            "ElfioVerif.C06.save_twice_witness_byte",
            "ElfioVerif.C06.saveHdr0_idem",
            "ElfioVerif.C06.save_noseg_eq",
            "ElfioVerif.C06.save_twice_no_segments",
            "ElfioVerif.C06.save_twice_no_segments_bytes",
            "ElfioVerif.C06.stepCore_resave",
            "ElfioVerif.C06.wsdStep_resave",
            "ElfioVerif.C06.wsdLoop_resave",
            "ElfioVerif.C06.layoutSegment_resave",
            "ElfioVerif.C06.segRun_resave",
            "ElfioVerif.C06.save_twice",
            "ElfioVerif.C06.save_idempotent_on_settled",
            "ElfioVerif.C06.stepCore_resave_cls",
            "ElfioVerif.C06.wsdStep_resave_cls",
            "ElfioVerif.C06.wsdLoop_resave_cls",
            "ElfioVerif.C06.layoutSegment_resave_cls",
            "ElfioVerif.C06.segRun_resave_cls",
            "ElfioVerif.C06.save_twice_cls",
            "ElfioVerif.C06.save_idempotent_on_settled_cls",
            "ElfioVerif.C06.resaveOkC_of_c64",
            "ElfioVerif.C06.resaveOkC_of_B",
            "ElfioVerif.C06.exObj32_resave",
            "ElfioVerif.C06.orderFront_go_map",
            "ElfioVerif.C06.orderedSegments_map_front",
            "ElfioVerif.C06.orderedSegments_perm_any",
            "ElfioVerif.C06.save_twice_front",
            "ElfioVerif.C06.save_idempotent_front",
            "ElfioVerif.C06.exLoadedLike_resave"]
SITES = ["save_", "lsws", "lst_", "lseg", "wsd"]
RULE = ("writer-domain programs x 4 configurations: save, save again, reload (eager or lazy), save; plus "
        "well-formed bundled examples: load, save, reload, save; non-trivial = first save succeeded and the "
        "object has >= 1 segment or >= 3 sections; distinct by md5")
ASSUMPTIONS = ["file size < 2^32 (ELF32) / 2^63"]
TRUSTED = []
KEEP_FIRST = 1


def gen_cases(rng, tier):
    n = 160 if tier == "quick" else 2000
    for i in range(n):
        cls, enc = CFGS[i % 4]
        p = gen_program(rng, cls, enc)
        lines = to_lines(p) + ["save", "save", f"reload lazy={rng.choice([0, 1])}", "save"]
        yield {"id": f"p{i}", "lines": lines, "meta": {"prog": _c03.jsonable(p), "f13": f13_trigger(p)}}
    # the F13 witness of DESIGN.md: .data (11 bytes, align 8) + .bss (NOBITS, align 8) in one PT_LOAD
    w = ["create cls=64 enc=lsb", "addsec name=2e64617461 type=1 flags=3 align=8 data=0102030405060708090a0b",
         "addsec name=2e627373 type=8 flags=3 align=8 size=32", "addseg type=1 flags=6 align=4096 vaddr=4194304 paddr=4194304",
         "segadd 0 2", "segadd 0 3", "save", "save", "reload lazy=0", "save"]
    yield {"id": "f13-witness", "lines": w, "meta": {"f13": True}}
    for f, b in examples(20000 if tier == "quick" else 200000):
        if elfspec.wellformed(b):
            yield {"id": f"ex-{f}", "lines": [f"load {hx(b)} lazy=0 kind=str", "save", "save", "reload lazy=0", "save"],
                   "meta": {"example": f, "f13": False}}


def oracle(case, out):
    for i, o in enumerate(out):
        if o.startswith("FAULT"):
            return [{"signature": "fault:" + case["lines"][min(i, len(case["lines"]) - 1)].split()[0], "what": o}]
    saves = [o for o in out if o.startswith("save=")]
    if len(saves) < 3:
        return []
    ok1, b1 = saved_bytes(saves[0]); ok2, b2 = saved_bytes(saves[1]); ok3, b3 = saved_bytes(saves[2])
    if not ok1:
        return []
    f13 = case["meta"].get("f13")
    v = []
    if not ok2 or b1 != b2:
        v.append({"signature": "save-twice" + (":nobits-gap" if f13 else ""),
                  "what": "a second save of the same object produces different bytes"
                          + (" (address-less NOBITS member behind an alignment gap)" if f13 else "")})
    elif not ok3 or b3 != b1:
        v.append({"signature": "save-load-save" + (":nobits-gap" if f13 else ""),
                  "what": "load + save of a file produced by save() does not reproduce it"
                          + (" (address-less NOBITS member behind an alignment gap)" if f13 else "")})
    return v


def nontrivial(case, out):
    p = case["meta"].get("prog")
    saves = [o for o in out if o.startswith("save=true")]
    if p is None:
        return len(saves) >= 1
    return len(saves) >= 1 and (len(p["segs"]) >= 1 or len(p["secs"]) >= 3)


def classify(case, out):
    if "prog" in case["meta"]:
        return _c03.classify(case, out) + (["f13-trigger"] if case["meta"].get("f13") else [])
    return ["example" if "example" in case["meta"] else "witness"]
