"""C06 — saving is deterministic and idempotent.

Proof (Props/C06.lean; details in that file's header): `save_twice_witness` (F13 machine-checked),
`save_twice_no_segments` (any class: save of a segment-less object is idempotent on its own output),
`save_twice` / `save_idempotent_on_settled` (ELF64, flat or nested segments, none at file offset 0, side
conditions `ResaveOk` = no F13 trigger and non-zero segment starts: a second successful save returns the
same result), with the ladder `stepCore_resave` .. `segRun_resave`.
ANY CLASS (Props/C06Cls.lean): `save_twice_cls` / `save_idempotent_on_settled_cls` are save_twice for ELF32 and
ELF64 alike (ladder `stepCore_resave_cls` .. `segRun_resave_cls`), under `ResaveOkC` = ResaveOk plus two side
conditions that only bite in ELF32: an address the writer assigns to a member fits the 32-bit field (else the
second save derives the gap from the truncated address), and every segment's start offset fits the 32-bit field
(else the stored p_offset is not where the segment was laid out).  `resaveOkC_of_c64`: in ELF64 ResaveOkC is
ResaveOk (save_twice_cls contains save_twice).  `resaveOkB`/`resaveOkC_of_B`: a Bool-valued sufficient condition;
`exObj32_resave`: an ELF32 big-endian object with a PT_LOAD, a nested segment and a loose section meets every
hypothesis and both saves succeed.
SEGMENTS AT FILE OFFSET 0 (same file): `save_twice_front` / `save_idempotent_front` replace `NoZeroOffset` by
`FrontOk` = NoZeroOffset OR AllOffsetSet (every segment's offset is initialised - every loaded or previously saved
object - and a section-less PT_PHDR is not at offset 0): the first loop of get_ordered_segments (`orderFront`) then
reads of a segment only whether its offset is 0, a save keeps that (`SegRun.front_cls`), so the loop commutes with
the save (`orderFront_go_map`, `orderedSegments_map_front`; `orderedSegments_perm_any`: the order is a permutation
with or without offset-0 segments).  `exLoadedLike_resave`: a loader-like object whose first PT_LOAD is at offset 0
meets the hypotheses and both saves succeed.  Observation (not reachable through the public API, so not a
finding): orderFront tests `worklist[nextSlot]->get_offset() == 0` WITHOUT is_offset_initialized(); a never-laid-out
segment listed before a segment at offset 0 would be ordered differently by the second save - segments.add only
appends and set_offset is protected, so such a list cannot be built.  SAVE . LOAD . SAVE (Props/Compose.lean): `Compose.save_load_save_noseg` - for an object WITHOUT
segments whose section data are in memory: save, load the saved bytes with the model's `load` (eager or lazy, string-
or file-backed stream), save the loaded object into the same initial stream - the second save succeeds and yields the
same stream byte for byte (composition of `reload_reports_saved_noseg` (families/c02.py), `RoundTrip.preRes_outRel` /
`saveTail_os_congr` and `save_twice_no_segments`).
THE SECOND SAVE SUCCEEDS (Props/C06Runs.lean): `save_twice_runs` - save o os = ok r with r.ok => save r.obj os = ok r,
with NO hypothesis about the second save (save_twice_front assumed it returns ok), under `ResaveOkR` = ResaveOkC plus
`StepNoWrap` (where the first save assigns an address: segment start <= cursor and cursor + gap < 2^64 - the only way
the second save can take `if (req_offset < cur_offset) return false`); ladder `stepCore_resave_run` ..
`segRun_resave_run`, `save_of_parts` (a save rebuilt from its phases); `resaveOkRB` Bool-valued sufficient condition;
by-products: every non-NULL member of a segment of the saved object has its address marked as set, every segment its
offset.
SAVE . LOAD . SAVE WITH FLAT SEGMENTS (Lemmas/RoundTrip2.lean, Props/Compose2.lean): `Compose.save_load_save_flat` -
for an object of the `ResaveDomain` (all clauses decidable, on the INPUT object: `FlatDomain`; `layoutDomB true false`
= the memory size covers every member, excludes F14; `MemberDomain` = members exist, are non-empty, SHF_ALLOC, listed in
ascending index order, carry SHF_TLS exactly in a PT_TLS, section 0 at file offset 0; section data in memory; `FrontOk`;
`ResaveOkR`) and two decidable hypotheses on the SAVED object (`NoWrap64`; `AddrSeparate` = an allocated section that is
not a declared member of a segment lies outside that segment's address range): save, `load` of the bytes (eager or lazy,
either stream kind, into any object without translation), save of the loaded object into the same initial stream
SUCCEEDS and yields the IDENTICAL stream.  Parts: `members_recomputed` (the loader's membership rule `Spec.inSegment`
evaluated on the saved object returns exactly the declared member lists in the declared order: a declared member is
allocated so the address rule applies, its address range lies in [p_vaddr, p_vaddr+p_memsz) by C04.save_segments, it is
not empty, its TLS flag matches; a non-allocated section is outside all segments and the loose-section pass places it
behind every flat segment's file range, section 0 stays at offset 0 before the first segment);
`save_load_save_of_members` (the same conclusion from `MembersRecomputed` on the saved object instead of
MemberDomain/AddrSeparate/cov); `RoundTrip.save_congr` (congruence of `save`: objects that agree on class, byte order,
header, whose segments agree up to the auxiliary fields data/isLazy/isLoaded/streamSize - `reAux`, every pass commutes
with it - and whose sections are pairwise `OutRel` and agree on `addrSet` wherever a segment refers to them - lock-step
ladder `stepCore_rel` .. `saveFold_rel`, `saveTail_rel` - save to the same stream); `RoundTrip.load_segs_offsetSet`.
`save_load_save_flat_input`: the same with EVERY hypothesis on the object to be saved - `NoWrap64` and `AddrSeparate`
of the saved object are replaced by `noWrap64InB o hd` / `addrSeparateInB o hd`, Bool functions of the input that run the
layout (`layoutOf (preSave o)`, like `layoutNW` / `layoutDomB`) and check its result (`noWrap64_of_input`,
`addrSeparate_of_input`: the saved object carries the layout result's header fields, C04.save_secs_hdr); both classes.
Non-vacuity: `exFlatM` (ELF32/MSB, one PT_LOAD) and `exTwoM` (ELF64/LSB, two PT_LOADs, explicit address, NOBITS member,
loose section), both built with the model's API, meet every hypothesis (`exFlat_resave`, `exTwo_resave`).
WHY THE EXTRA HYPOTHESES (each excludes a case where the REAL code does not reproduce the file; replayed with
`check.py C06 --replay`, model and code agree): members listed in descending index order (third save returns false);
an empty NOBITS member at a segment's end (dropped from the segment by load, laid out as loose section); an SHF_TLS
section that is a member of a PT_LOAD (load adds TLS sections to PT_TLS segments only: p_filesz 0x10 -> 0x05) -
the last one is inside the documented writer domain: FINDING F17, see below.  `Compose.SaveLoadSaveStatement` (FlatDomain +
ResaveOk only) is therefore too weak as first written; `saveLoadSave_flat_statement` is the proved form.
PARTIAL - FINDING F17 (open): save . load . save is proved for objects whose segment members carry SHF_TLS exactly if the
segment is a PT_TLS; the trigger - a thread-local section (`.tdata`) that is a member of a PT_LOAD, with or without a
PT_TLS nested over it, i.e. the arrangement of every linked program with thread-local data (tests/elf_examples/
x86_64_static) - is excluded exactly by `Compose.MemberDomain`'s TLS clause (for nested segments by the checked
`membersRecomputedInB`).  elfio::load_segments ("If it is a TLS segment, add TLS sections only and vice versa") drops such
a section from the PT_LOAD's member list, the next save lays it out elsewhere and the file is not reproduced.
Machine-checked witnesses (Props/F17.lean; kernel evaluation of the model's save, load, save on objects built with its
API = corpus/c06/f17-*.case): `F17.save_load_save_tls_witness` (PT_LOAD only: all three steps succeed, the files differ,
p_filesz 0x10 -> 0x05), `F17.save_load_save_tls_nested_witness` (PT_LOAD + nested PT_TLS: PT_TLS p_offset 0x1008 -> 0x1018),
`F17.tls_witness_outside_MemberDomain` (both objects violate MemberDomain by its TLS clause),
`F17.tls_witness_domain_otherwise` (the first meets every OTHER hypothesis of save_load_save_flat).  Registered in
known_findings.json (`save-load-save:tls-member`); not repaired: the membership rule is the one property C02 states
("thread-local sections only in thread-local segments"), a writer-side repair is not small.
NESTED SEGMENTS: `save_load_save_nested_input` / `save_load_save_of_members_nested` - the same conclusion for objects
whose segments are flat or nested (`NestedDomain selE selN`, see families/c20.py), every hypothesis decidable and on the
input object; here the equality of recomputed and declared member lists is a CHECKED hypothesis (`membersRecomputedInB o
hd`, a Bool function of the input that runs the layout and applies `Spec.inSegment` to its result;
`membersRecomputed_of_input`), not derived from structural hypotheses as `members_recomputed` does for flat segments.
Non-vacuity: `exNestedM` (a PT_LOAD nested in a PT_LOAD).
STEPNOWRAP FROM layoutNW (Props/C06Rest.lean): `resaveOkR_of_layoutNW` - ResaveOkR follows from ResaveOkC + C04's
`layoutNW (preSave o) hd` + `layoutStartsB (preSave o) hd` for an object whose layout succeeds (implied by a successful
save), with < 2^16 sections, no file-occupying section with index 0 and empty SHT_NULL-typed sections (all already in
SaveInput / FlatDomain / NestedDomain).  The two formulations of the passes are bridged (`stepGap_eq_wsdGap`,
`segStartOf_eq_init`, `preRes_eq_preSave`); `cursor + gap < 2^64` is wsdStepNW's first conjunct for every non-NULL
member (`stepNoWrap_of_NW`; an empty SHT_NULL-typed member has gap 0 by StepOkC); `seg_start_pos <= cursor` is kept by
the monotone cursor.  `layoutStartsB` (Bool, follows the layout like layoutNW: at the turn of every segment with
members, seg_start_pos <= cursor OR every member is already generated so that no address is assigned) is NOT implied by
layoutNW alone - a nested segment whose already generated first member is SHT_NULL-typed (or has index 0) starts at that
section's arbitrary stored offset - and is discharged for flat objects (`layoutStartsB_of_flat`), for flat + fully
nested segments (`layoutStartsB_of_mixed`, the NestedDomain), per segment when the generated first member occupies
file space (`segStartLeB_of_occ`), and for ANY nesting (also partial) from layoutNW and the static condition `HeadOk`
(Bool form `headOkB`): every segment has < 2^16 members and its first member is neither SHT_NULL-typed nor section 0
(`layoutStartsB_of_static`, invariant `GenLe`: under layoutNW every generated proper section starts at or below the
cursor; `save_twice_runs_static'`).  `save_twice_runs_small'` (Props/C06Small.lean): layoutNW itself replaced by the
closed-form bounds `SmallObject o` (families/c04.py) - the no-wrap hypotheses of the second-save theorem are then plain
bounds plus HeadOk.  `Compose.save_load_save_flat_small'`: save . load . save on flat segments with NoWrap64 of the saved
object discharged from the closed-form bounds too (`C04.noWrap64_of_small_flat`); non-vacuity exTwoM.  Restated theorems: `save_twice_runs'` (ResaveOkC + layoutNW + layoutStartsB),
`save_twice_runs_flat'` (ResaveOkC + layoutNW + layoutDomB), `Compose.save_load_save_flat'` (`ResaveDomainC` =
ResaveDomain with ResaveOkC), `Compose.save_load_save_nested_input'` (NestedDomain + ResaveOkC); `stepNoWrap_of_layoutNW`
shows the derived fact at a member.  Non-vacuity: exObj32, exTwoM, exNestedM.
Not proved: `members_recomputed` for nested segments from structural hypotheses (a TLS section inside a PT_LOAD and a
nested PT_TLS - the usual nesting - is dropped from the PT_LOAD's list by the loader, so the lists do differ there);
`layoutStartsB` when a nested segment's first member is SHT_NULL-typed or section 0 - there it DOES fail:
`layoutNW_not_sufficient_witness` machine-checks a (model-level, outside the writer domain) object meeting layoutNW,
ResaveOkC and every other hypothesis whose second save returns false, so layoutNW alone does not imply StepNoWrap.
Correspondence: family load.
Oracle: bytes of the first save == bytes of a second save of the same object; bytes of
save(load(save(obj))) == bytes of save(obj).  Known open finding F13 (address-less NOBITS member with
an alignment gap: the first save advances the file cursor by the gap, later saves do not) is keyed by
its trigger and reported as KNOWN-FINDING; so is F17 (`save-load-save:tls-member`: the saved file / the program has an
SHF_TLS section inside a non-TLS segment; classified only when F13's trigger is absent, and only for the
save-load-save half - a save-twice difference never gets it); any other difference is a violation.
Generators: writercommon.gen_program (never sets SHF_TLS) and gen_tls_program (a `.tdata` among a PT_LOAD's members,
with / without a nested PT_TLS, 4 configurations).
"""
from families.writercommon import *
from families import c03 as _c03

PROPERTY = "C06"
FAMILY = "load"
LEAN_MODULE = "ElfioVerif.Props.C06Cls"
THEOREMS = ["ElfioVerif.C06.save_twice_witness",
            "ElfioVerif.C06.save_twice_witness_offsets",
            "ElfioVerif.C06.save_twice_witness_byte",
            "ElfioVerif.C06.saveHdr0_idem",
            "ElfioVerif.C06.save_noseg_eq",
            "ElfioVerif.C06.save_twice_no_segments",
            "ElfioVerif.C06.save_twice_no_segments_bytes",
            "ElfioVerif.C06.stepCore_resave",
            "ElfioVerif.C06.wsdStep_resave",
            "ElfioVerif.C06.wsdLoop_resave",
            "ElfioVerif.C06.layoutSegment_resave",
            "ElfioVerif.C06.segRun_resave",
            "ElfioVerif.C06.save_twice",
            "ElfioVerif.C06.save_idempotent_on_settled",
            "ElfioVerif.C06.stepCore_resave_cls",
            "ElfioVerif.C06.wsdStep_resave_cls",
            "ElfioVerif.C06.wsdLoop_resave_cls",
            "ElfioVerif.C06.layoutSegment_resave_cls",
            "ElfioVerif.C06.segRun_resave_cls",
            "ElfioVerif.C06.save_twice_cls",
            "ElfioVerif.C06.save_idempotent_on_settled_cls",
            "ElfioVerif.C06.resaveOkC_of_c64",
            "ElfioVerif.C06.resaveOkC_of_B",
            "ElfioVerif.C06.exObj32_resave",
            "ElfioVerif.C06.orderFront_go_map",
            "ElfioVerif.C06.orderedSegments_map_front",
            "ElfioVerif.C06.orderedSegments_perm_any",
            "ElfioVerif.C06.save_twice_front",
            "ElfioVerif.C06.save_idempotent_front",
            "ElfioVerif.C06.exLoadedLike_resave",
            "ElfioVerif.RoundTrip.saveTail_os_congr",
            "ElfioVerif.RoundTrip.preRes_outRel",
            "ElfioVerif.Compose.save_load_save_noseg",
            "ElfioVerif.C06.save_of_parts",
            "ElfioVerif.C06.stepCore_resave_run",
            "ElfioVerif.C06.wsdStep_resave_run",
            "ElfioVerif.C06.wsdLoop_resave_run",
            "ElfioVerif.C06.layoutSegment_resave_run",
            "ElfioVerif.C06.segRun_resave_run",
            "ElfioVerif.C06.save_twice_runs",
            "ElfioVerif.C06.resaveOkR_of_B",
            "ElfioVerif.C06.exObj32_runs",
            "ElfioVerif.RoundTrip.stepCore_rel",
            "ElfioVerif.RoundTrip.wsdStep_rel",
            "ElfioVerif.RoundTrip.layoutSegment_rel",
            "ElfioVerif.RoundTrip.saveFold_rel",
            "ElfioVerif.RoundTrip.layoutSegment_reAux",
            "ElfioVerif.RoundTrip.saveTail_rel",
            "ElfioVerif.RoundTrip.save_congr",
            "ElfioVerif.RoundTrip.load_segs_offsetSet",
            "ElfioVerif.Compose.save_load_save_of_members",
            "ElfioVerif.Compose.members_recomputed",
            "ElfioVerif.Compose.save_load_save_flat",
            "ElfioVerif.Compose.noWrap64_of_input",
            "ElfioVerif.Compose.addrSeparate_of_input",
            "ElfioVerif.Compose.save_load_save_flat_input",
            "ElfioVerif.Compose.save_load_save_core",
            "ElfioVerif.Compose.save_load_save_of_members_nested",
            "ElfioVerif.Compose.membersRecomputed_of_input",
            "ElfioVerif.Compose.save_load_save_nested_input",
            "ElfioVerif.Compose.saveLoadSave_flat_statement",
            "ElfioVerif.Compose.exFlat_resave",
            "ElfioVerif.Compose.exTwo_resave",
            "ElfioVerif.Compose.ExOk.saveLoadSave",
            "ElfioVerif.F17.save_load_save_tls_witness",
            "ElfioVerif.F17.save_load_save_tls_nested_witness",
            "ElfioVerif.F17.tls_witness_outside_MemberDomain",
            "ElfioVerif.F17.tls_witness_domain_otherwise",
            "ElfioVerif.C06.stepNoWrap_of_NW",
            "ElfioVerif.C06.segStartLeB_of_occ",
            "ElfioVerif.C06.layoutStartsB_of_flat",
            "ElfioVerif.C06.layoutStartsB_of_mixed",
            "ElfioVerif.C06.segStartLeB_of_genLe",
            "ElfioVerif.C06.layoutStartsB_of_static",
            "ElfioVerif.C06.save_twice_runs_static'",
            "ElfioVerif.C06.save_twice_runs_small'",
            "ElfioVerif.C06.layoutNW_not_sufficient_witness",
            "ElfioVerif.Compose.save_load_save_flat_small'",
            "ElfioVerif.C06.resaveOkR_of_layoutNW",
            "ElfioVerif.C06.stepNoWrap_of_layoutNW",
            "ElfioVerif.C06.save_twice_runs'",
            "ElfioVerif.C06.save_twice_runs_flat'",
            "ElfioVerif.Compose.ResaveDomainC.toResaveDomain",
            "ElfioVerif.Compose.save_load_save_flat'",
            "ElfioVerif.Compose.save_load_save_nested_input'"]
EXTRA_IMPORTS = ["ElfioVerif.Props.Compose", "ElfioVerif.Props.C06Runs", "ElfioVerif.Props.Compose2", "ElfioVerif.Props.F17", "ElfioVerif.Props.C06Rest", "ElfioVerif.Props.C06Small"]
SITES = ["save_", "lsws", "lst_", "lseg", "wsd"]
RULE = ("writer-domain programs (incl. thread-local data inside a PT_LOAD with/without nested PT_TLS) x 4 configurations: "
        "save, save again, reload (eager or lazy), save; plus "
        "well-formed bundled examples: load, save, reload, save; non-trivial = first save succeeded and the "
        "object has >= 1 segment or >= 3 sections; distinct by md5")
ASSUMPTIONS = ["file size < 2^32 (ELF32) / 2^63"]
TRUSTED = []
KEEP_FIRST = 1


def gen_cases(rng, tier):
    n = 160 if tier == "quick" else 2000
    for i in range(n):
        cls, enc = CFGS[i % 4]
        p = gen_program(rng, cls, enc)
        lines = to_lines(p) + ["save", "save", f"reload lazy={rng.choice([0, 1])}", "save"]
        yield {"id": f"p{i}", "lines": lines, "meta": {"prog": _c03.jsonable(p), "f13": f13_trigger(p)}}
    # the F13 witness of DESIGN.md: .data (11 bytes, align 8) + .bss (NOBITS, align 8) in one PT_LOAD
    w = ["create cls=64 enc=lsb", "addsec name=2e64617461 type=1 flags=3 align=8 data=0102030405060708090a0b",
         "addsec name=2e627373 type=8 flags=3 align=8 size=32", "addseg type=1 flags=6 align=4096 vaddr=4194304 paddr=4194304",
         "segadd 0 2", "segadd 0 3", "save", "save", "reload lazy=0", "save"]
    yield {"id": "f13-witness", "lines": w, "meta": {"f13": True}}
    for f, b in examples(20000 if tier == "quick" else 200000):
        if elfspec.wellformed(b):
            yield {"id": f"ex-{f}", "lines": [f"load {hx(b)} lazy=0 kind=str", "save", "save", "reload lazy=0", "save"],
                   "meta": {"example": f, "f13": False}}
    # thread-local data among a PT_LOAD's members, with / without a PT_TLS nested over it (finding F17's trigger)
    for i in range(24 if tier == "quick" else 240):
        cls, enc = CFGS[i % 4]
        p = gen_tls_program(rng, cls, enc, tls_seg=(i // 4) % 2 == 0)
        lines = to_lines(p) + ["save", "save", f"reload lazy={rng.choice([0, 1])}", "save"]
        yield {"id": f"tls{i}", "lines": lines, "meta": {"prog": _c03.jsonable(p), "f13": False, "tls": True}}


def oracle(case, out):
    for i, o in enumerate(out):
        if o.startswith("FAULT"):
            return [{"signature": "fault:" + case["lines"][min(i, len(case["lines"]) - 1)].split()[0], "what": o}]
    saves = [o for o in out if o.startswith("save=")]
    if len(saves) < 3:
        return []
    ok1, b1 = saved_bytes(saves[0]); ok2, b2 = saved_bytes(saves[1]); ok3, b3 = saved_bytes(saves[2])
    if not ok1:
        return []
    f13 = case["meta"].get("f13")
    v = []
    if not ok2 or b1 != b2:
        v.append({"signature": "save-twice" + (":nobits-gap" if f13 else ""),
                  "what": "a second save of the same object produces different bytes"
                          + (" (address-less NOBITS member behind an alignment gap)" if f13 else "")})
    elif not ok3 or b3 != b1:
        # classification order: F13's trigger (a property of the construction program) first and unchanged; F17's
        # trigger only on programs / images WITHOUT it, so neither known finding can hide under the other's
        # signature; a difference with neither trigger is a plain `save-load-save` violation
        tls = not f13 and tls_member(case["meta"].get("prog"), b1)
        v.append({"signature": "save-load-save" + (":nobits-gap" if f13 else ":tls-member" if tls else ""),
                  "what": "load + save of a file produced by save() does not reproduce it"
                          + (" (address-less NOBITS member behind an alignment gap)" if f13 else
                             " (an SHF_TLS section inside a non-TLS segment: after load it is no member of it, F17)" if tls else "")})
    return v


def nontrivial(case, out):
    p = case["meta"].get("prog")
    saves = [o for o in out if o.startswith("save=true")]
    if p is None:
        return len(saves) >= 1
    return len(saves) >= 1 and (len(p["segs"]) >= 1 or len(p["secs"]) >= 3)


def classify(case, out):
    if "prog" in case["meta"]:
        return _c03.classify(case, out) + (["f13-trigger"] if case["meta"].get("f13") else [])
    return ["example" if "example" in case["meta"] else "witness"]
