// Correspondence harness, family c07: section data editing on the real section_impl.
#define VH_MAIN
#include "common.hpp"
using namespace ELFIO;
using namespace vh;

struct Ctx
{
    std::unique_ptr<elfio>              elf;
    std::unique_ptr<std::istringstream> stream; // kept alive for lazily loaded objects
    section*                            sec = nullptr;
};

static void show( Ctx& c, FILE* out )
{
    const char* d = c.sec->get_data();
    Elf_Xword   n = c.sec->get_size();
    fprintf( out, "size=%llu data=%s\n", (unsigned long long)n, d ? hex( d, (size_t)n ).c_str() : "null" );
    fflush( out );
}

static void run_case( const std::vector<Toks>& ops, FILE* out )
{
    Ctx c;
    for ( auto& t : ops ) {
        const std::string& op = t[0];
        if ( op == "new" || op == "loadsec" ) {
            unsigned char cls = kvn( t, "cls", 64 ) == 32 ? ELFCLASS32 : ELFCLASS64;
            std::string   e;
            unsigned char enc = ( kv( t, "enc", e ) && e == "msb" ) ? ELFDATA2MSB : ELFDATA2LSB;
            Elf_Word      ty  = (Elf_Word)kvn( t, "type", 1 );
            if ( op == "new" ) {
                c.elf = std::make_unique<elfio>();
                c.elf->create( cls, enc );
                c.sec = c.elf->sections.add( ".x" );
                c.sec->set_type( ty );
                show( c, out );
            }
            else {
                std::string h;
                kv( t, "data", h );
                std::string data = unhex( h );
                elfio       w;
                w.create( cls, enc );
                w.set_type( ET_REL );
                section* s = w.sections.add( ".x" );
                s->set_type( ty );
                s->set_data( data.data(), data.size() );
                std::ostringstream os;
                if ( !w.save( os ) ) {
                    fprintf( out, "bad-op save-failed\n" );
                    continue;
                }
                c.stream = std::make_unique<std::istringstream>( os.str() );
                c.elf    = std::make_unique<elfio>();
                if ( !c.elf->load( *c.stream, kvn( t, "lazy", 0 ) == 1 ) ) {
                    fprintf( out, "bad-op load-failed\n" );
                    continue;
                }
                c.sec = c.elf->sections[".x"];
                fprintf( out, "size=%llu\n", (unsigned long long)c.sec->get_size() );
                fflush( out );
            }
            continue;
        }
        if ( !c.sec ) {
            fprintf( out, "bad-op no-section\n" );
            continue;
        }
        if ( op == "set" && t.size() == 2 ) {
            std::string d = unhex( t[1] );
            c.sec->set_data( d.data(), d.size() );
        }
        else if ( op == "setnull" && t.size() == 2 )
            c.sec->set_data( nullptr, num( t[1] ) );
        else if ( op == "app" && t.size() == 2 ) {
            std::string d = unhex( t[1] );
            c.sec->append_data( d.data(), d.size() );
        }
        else if ( op == "appself" && t.size() == 3 ) {
            // append_data( get_data() + off, n ): the source lies in the section's own buffer
            const char* d   = c.sec->get_data();
            Elf_Xword   off = num( t[1] ), n = num( t[2] );
            if ( !d || off + n > c.sec->get_size() ) {
                fprintf( out, "bad-op\n" );
                continue;
            }
            c.sec->append_data( d + off, (Elf_Word)n );
        }
        else if ( op == "ins" && t.size() == 3 ) {
            std::string d = unhex( t[2] );
            c.sec->insert_data( num( t[1] ), d.data(), d.size() );
        }
        else if ( op == "sets" && t.size() == 2 )
            c.sec->set_data( unhex( t[1] ) );
        else if ( op == "apps" && t.size() == 2 )
            c.sec->append_data( unhex( t[1] ) );
        else if ( op == "inss" && t.size() == 3 )
            c.sec->insert_data( num( t[1] ), unhex( t[2] ) );
        else if ( op == "get" ) {
        }
        else if ( op == "free" )
            c.sec->free_data();
        else {
            fprintf( out, "bad-op\n" );
            continue;
        }
        show( c, out );
    }
}

int main() { return run_all( std::cin, run_case ); }
