// Correspondence harness, family load: elfio::load on arbitrary bytes + inspection.
#define VH_MAIN
#include "common.hpp"
#include <fstream>
#include <elfio/elfio_dump.hpp>
using namespace ELFIO;
using namespace vh;

static unsigned long long fnv( const char* p, size_t n )
{
    unsigned long long h = 1469598103934665603ULL;
    for ( size_t i = 0; i < n; ++i ) {
        h ^= (unsigned char)p[i];
        h *= 1099511628211ULL;
    }
    return h;
}
static std::string datastr( const char* d, size_t n )
{
    if ( !d )
        return "null";
    if ( n <= 64 )
        return hex( d, n );
    return "len:" + std::to_string( n ) + ":fnv:" + std::to_string( fnv( d, n ) );
}

static void save_line( FILE* out, bool r, const std::string& bytes, bool sum )
{
    if ( sum )
        fprintf( out, "save=%s len=%zu fnv=%llu\n", r ? "true" : "false", bytes.size(), fnv( bytes.data(), bytes.size() ) );
    else
        fprintf( out, "save=%s bytes=%s\n", r ? "true" : "false", hex( bytes ).c_str() );
}

// --- independent byte patching of a saved image (no ELFIO involved)
static unsigned long long rdf( const std::string& b, size_t off, int w, bool msb )
{
    unsigned long long v = 0;
    for ( int i = 0; i < w; ++i ) {
        unsigned char c = (unsigned char)b[off + ( msb ? i : w - 1 - i )];
        v               = ( v << 8 ) | c;
    }
    return v;
}
static void wrf( std::string& b, size_t off, int w, bool msb, unsigned long long v )
{
    for ( int i = 0; i < w; ++i ) {
        unsigned char c            = (unsigned char)( v >> ( 8 * i ) );
        b[off + ( msb ? w - 1 - i : i )] = (char)c;
    }
}
struct Img
{
    bool   c64, msb;
    size_t shoff, shent, shnum, phoff, phent, phnum;
    bool   ok;
};
static Img parse_img( const std::string& b )
{
    Img m{};
    if ( b.size() < 52 )
        return m;
    m.c64 = b[4] == 2;
    m.msb = b[5] == 2;
    if ( m.c64 && b.size() < 64 )
        return m;
    m.phoff = (size_t)rdf( b, m.c64 ? 32 : 28, m.c64 ? 8 : 4, m.msb );
    m.shoff = (size_t)rdf( b, m.c64 ? 40 : 32, m.c64 ? 8 : 4, m.msb );
    m.phent = (size_t)rdf( b, m.c64 ? 54 : 42, 2, m.msb );
    m.phnum = (size_t)rdf( b, m.c64 ? 56 : 44, 2, m.msb );
    m.shent = (size_t)rdf( b, m.c64 ? 58 : 46, 2, m.msb );
    m.shnum = (size_t)rdf( b, m.c64 ? 60 : 48, 2, m.msb );
    m.ok    = true;
    return m;
}

// ---- C01 inspection ops: helpers ------------------------------------------------------------
// boundary index set {0,1,count-1,count,count+1,size-1,size,2^32-1[,2^64-1]}, distinct, in this order
static std::vector<unsigned long long> bidx( unsigned long long count, unsigned long long size, bool has_size, bool wide )
{
    std::vector<unsigned long long> c{ 0, 1 };
    if ( count >= 1 )
        c.push_back( count - 1 );
    c.push_back( count );
    c.push_back( count + 1 );
    if ( has_size ) {
        if ( size >= 1 )
            c.push_back( size - 1 );
        c.push_back( size );
    }
    c.push_back( 4294967295ULL );
    if ( wide )
        c.push_back( 18446744073709551615ULL );
    std::vector<unsigned long long> r;
    for ( auto v : c ) {
        if ( !wide && v > 4294967295ULL )
            continue;
        bool dup = false;
        for ( auto w : r )
            dup = dup || w == v;
        if ( !dup )
            r.push_back( v );
    }
    return r;
}
// notes through a section / segment accessor: count, then get_note at the boundary indices; the
// descriptor is read with descSize bytes at the returned pointer (what a user and dump::note do)
template <class A> static std::string notes_line( A& a, unsigned long long size )
{
    Elf_Word    n = a.get_notes_num();
    std::string s = "n=" + std::to_string( n );
    for ( auto k : bidx( n, size, true, false ) ) {
        Elf_Word    type = 0, dsz = 0;
        std::string name;
        char*       desc = nullptr;
        s += " " + std::to_string( k ) + ":";
        if ( !a.get_note( (Elf_Word)k, type, name, desc, dsz ) )
            s += "false";
        else
            s += std::to_string( type ) + "/" + datastr( name.data(), name.size() ) + "/" +
                 ( desc ? datastr( desc, dsz ) : std::string( "null" ) ) + "/" + std::to_string( dsz );
    }
    return s;
}
// ---- end of C01 inspection helpers ------------------------------------------------------------

struct Ctx
{
    std::unique_ptr<elfio>              elf;
    std::unique_ptr<std::istringstream> ss;
    std::vector<address_translation>    trans;
    std::string                         saved; // bytes of the last save
};

// ---- C18 table query ops (rel, symname, symvalue, arr32, arr64, versym, verneed, verdef, arrange, swap, alarm)
#include "c18_ops.hpp"

static void run_case( const std::vector<Toks>& ops, FILE* out )
{
    std::vector<std::unique_ptr<Ctx>> objs;
    objs.emplace_back( new Ctx );
    objs[0]->elf = std::make_unique<elfio>();
    size_t cur   = 0;
    // every op executed so far except the ones that run the layout or replace the object:
    // what `savefresh` re-executes to obtain the object "as built"
    std::vector<Toks> recipe;
    long long         full_len    = -1; // length of the complete file of the rebuilt object (cache for rel=)
    size_t            full_len_at = 0;
    for ( auto& t : ops ) {
        const std::string& op = t[0];
        if ( op == "savefresh" ) {
            // save (optionally with a byte budget) of a freshly rebuilt copy of the current object;
            // the objects of this case are not touched
            Toks sv = t;
            sv[0]   = "save";
            std::string rel;
            if ( kv( t, "rel", rel ) ) {
                // budget relative to the length of the complete file: one more rebuilt copy is saved
                // without budget to learn that length
                if ( full_len < 0 || full_len_at != recipe.size() ) {
                    recipe.push_back( Toks{ "save", "out=sum" } );
                    char*  b0 = nullptr;
                    size_t l0 = 0;
                    FILE*  m0 = open_memstream( &b0, &l0 );
                    run_case( recipe, m0 );
                    fclose( m0 );
                    recipe.pop_back();
                    std::string a0( b0 ? b0 : "", l0 );
                    free( b0 );
                    size_t q    = a0.rfind( " len=" );
                    full_len    = q == std::string::npos ? 0 : atoll( a0.c_str() + q + 5 );
                    full_len_at = recipe.size();
                }
                long long len = full_len;
                long long k   = len + snum( rel );
                sv            = Toks{ "save", "budget=" + std::to_string( k < 0 ? 0 : k ) };
                std::string o;
                if ( kv( t, "out", o ) )
                    sv.push_back( "out=" + o );
                if ( kv( t, "file", o ) )
                    sv.push_back( "file=" + o );
            }
            recipe.push_back( sv );
            char*  mbuf = nullptr;
            size_t mlen = 0;
            FILE*  mem  = open_memstream( &mbuf, &mlen );
            run_case( recipe, mem );
            fclose( mem );
            recipe.pop_back();
            std::string all( mbuf ? mbuf : "", mlen );
            free( mbuf );
            while ( !all.empty() && all.back() == '\n' )
                all.pop_back();
            size_t nl = all.rfind( '\n' );
            fprintf( out, "%s\n", all.substr( nl == std::string::npos ? 0 : nl + 1 ).c_str() );
            fflush( out );
            continue;
        }
        if ( op != "save" && op != "savefile" && op != "reload" )
            recipe.push_back( t );
        if ( op == "obj" ) {
            cur = (size_t)num( t[1] );
            while ( objs.size() <= cur ) {
                objs.emplace_back( new Ctx );
                objs.back()->elf = std::make_unique<elfio>();
            }
            fprintf( out, "ok\n" );
            fflush( out );
            continue;
        }
        Ctx& c = *objs[cur];
        if ( op == "trans" ) {
            c.trans.clear();
            for ( size_t i = 1; i + 2 < t.size(); i += 3 )
                c.trans.emplace_back( num( t[i] ), num( t[i + 1] ), num( t[i + 2] ) );
            c.elf->set_address_translation( c.trans );
            fprintf( out, "ok\n" );
        }
        else if ( op == "load" ) {
            std::string img  = unhex( t[1] );
            bool        lazy = kvn( t, "lazy", 0 ) == 1;
            std::string kind;
            kv( t, "kind", kind );
            alloc_log.clear();
            alloc_log_on = true;
            bool r;
            if ( kind == "file" ) {
                std::string p = "/tmp/vh_load_" + std::to_string( getpid() ) + ".bin";
                {
                    std::ofstream f( p, std::ios::binary );
                    f.write( img.data(), img.size() );
                }
                r = c.elf->load( p, lazy );
                unlink( p.c_str() ); // the open descriptor stays valid for lazy reads
            }
            else {
                c.ss = std::make_unique<std::istringstream>( img );
                r    = c.elf->load( *c.ss, lazy );
            }
            alloc_log_on = false;
            std::string al;
            for ( size_t a : alloc_log )
                al += ( al.empty() ? "" : "," ) + std::to_string( a );
            fprintf( out, "load=%s allocs=%s\n", r ? "true" : "false", al.empty() ? "-" : al.c_str() );
        }
        else if ( op == "hdr" ) {
            elfio& e = *c.elf;
            fprintf( out, "class=%u ver=%u enc=%u version=%u ehsize=%u shentsize=%u phentsize=%u osabi=%u abiver=%u type=%u machine=%u flags=%u entry=%llu shoff=%llu phoff=%llu shstrndx=%u nsec=%u nseg=%u\n",
                     e.get_class(), e.get_elf_version(), e.get_encoding(), e.get_version(), e.get_header_size(),
                     e.get_section_entry_size(), e.get_segment_entry_size(), e.get_os_abi(), e.get_abi_version(),
                     e.get_type(), e.get_machine(), e.get_flags(), (unsigned long long)e.get_entry(),
                     (unsigned long long)e.get_sections_offset(), (unsigned long long)e.get_segments_offset(),
                     e.get_section_name_str_index(), (unsigned)e.sections.size(), (unsigned)e.segments.size() );
        }
        else if ( op == "sec" ) {
            unsigned i = (unsigned)num( t[1] );
            section* s = c.elf->sections[i];
            if ( !s ) {
                fprintf( out, "null\n" );
                continue;
            }
            bool        nodata = kvn( t, "data", 1 ) == 0;
            const char* d      = nodata ? nullptr : s->get_data();
            fprintf( out, "idx=%u name=%s nameoff=%u type=%u flags=%llu addr=%llu off=%llu size=%llu link=%u info=%u align=%llu entsize=%llu data=%s\n",
                     s->get_index(), hex( s->get_name() ).c_str(), s->get_name_string_offset(), s->get_type(),
                     (unsigned long long)s->get_flags(), (unsigned long long)s->get_address(),
                     (unsigned long long)s->get_offset(), (unsigned long long)s->get_size(), s->get_link(),
                     s->get_info(), (unsigned long long)s->get_addr_align(), (unsigned long long)s->get_entry_size(),
                     nodata ? "skipped" : datastr( d, (size_t)s->get_size() ).c_str() );
        }
        else if ( op == "seg" ) {
            unsigned i = (unsigned)num( t[1] );
            if ( i >= c.elf->segments.size() ) {
                fprintf( out, "null\n" );
                continue;
            }
            segment*    g      = c.elf->segments[i];
            bool        nodata = kvn( t, "data", 1 ) == 0;
            const char* d      = nodata ? nullptr : g->get_data();
            std::string m;
            for ( Elf_Half k = 0; k < g->get_sections_num(); ++k )
                m += ( m.empty() ? "" : "," ) + std::to_string( g->get_section_index_at( k ) );
            fprintf( out, "idx=%u type=%u flags=%u off=%llu vaddr=%llu paddr=%llu filesz=%llu memsz=%llu align=%llu members=%s data=%s\n",
                     g->get_index(), g->get_type(), g->get_flags(), (unsigned long long)g->get_offset(),
                     (unsigned long long)g->get_virtual_address(), (unsigned long long)g->get_physical_address(),
                     (unsigned long long)g->get_file_size(), (unsigned long long)g->get_memory_size(),
                     (unsigned long long)g->get_align(), m.empty() ? "-" : m.c_str(),
                     nodata ? "skipped" : datastr( d, (size_t)g->get_file_size() ).c_str() );
        }
        else if ( op == "secfree" ) {
            section* s = c.elf->sections[(unsigned)num( t[1] )];
            if ( s )
                s->free_data();
            fprintf( out, "ok\n" );
        }
        else if ( op == "segfree" ) {
            unsigned i = (unsigned)num( t[1] );
            if ( i < c.elf->segments.size() )
                c.elf->segments[i]->free_data();
            fprintf( out, "ok\n" );
        }
        else if ( op == "str" ) {
            section* s = c.elf->sections[(unsigned)num( t[1] )];
            if ( !s ) {
                fprintf( out, "null\n" );
                continue;
            }
            string_section_accessor a( s );
            const char*             p = a.get_string( (Elf_Word)num( t[2] ) );
            fprintf( out, "str=%s\n", p ? hex( std::string( p ) ).c_str() : "null" );
        }
        // ---- C01 inspection ops -----------------------------------------------------------------
        else if ( op == "notes" ) {
            section* sec = c.elf->sections[(unsigned)num( t[1] )];
            if ( !sec ) {
                fprintf( out, "null\n" );
                continue;
            }
            note_section_accessor a( *c.elf, sec );
            fprintf( out, "notes %s\n", notes_line( a, sec->get_size() ).c_str() );
        }
        else if ( op == "segnotes" ) {
            unsigned j = (unsigned)num( t[1] );
            if ( j >= c.elf->segments.size() ) {
                fprintf( out, "null\n" );
                continue;
            }
            segment*              g = c.elf->segments[j];
            note_segment_accessor a( *c.elf, g );
            fprintf( out, "segnotes %s\n", notes_line( a, g->get_file_size() ).c_str() );
        }
        else if ( op == "dyn" ) {
            section* sec = c.elf->sections[(unsigned)num( t[1] )];
            if ( !sec ) {
                fprintf( out, "null\n" );
                continue;
            }
            dynamic_section_accessor a( *c.elf, sec );
            Elf_Xword                n = a.get_entries_num();
            std::string              s = "n=" + std::to_string( n );
            for ( auto k : bidx( n, 0, false, true ) ) {
                Elf_Xword   tag = 0, value = 0;
                std::string str;
                bool        r = a.get_entry( k, tag, value, str );
                s += " " + std::to_string( k ) + ":" + ( r ? "true" : "false" ) + "/" + std::to_string( tag ) + "/" +
                     std::to_string( value ) + "/" + datastr( str.data(), str.size() );
            }
            fprintf( out, "dyn %s\n", s.c_str() );
        }
        else if ( op == "modinfo" ) {
            section* sec = c.elf->sections[(unsigned)num( t[1] )];
            if ( !sec ) {
                fprintf( out, "null\n" );
                continue;
            }
            modinfo_section_accessor a( sec );
            Elf_Word                 n = a.get_attribute_num();
            std::string              s = "n=" + std::to_string( n ), first;
            for ( Elf_Word i = 0; i < n && i < 64; ++i ) {
                std::string f, v;
                a.get_attribute( i, f, v );
                if ( i == 0 )
                    first = f;
                s += " " + datastr( f.data(), f.size() ) + "=" + datastr( v.data(), v.size() );
            }
            for ( auto k : bidx( n, 0, false, false ) ) {
                std::string f, v;
                s += " get:" + std::to_string( k ) + ":";
                if ( a.get_attribute( (Elf_Word)k, f, v ) )
                    s += datastr( f.data(), f.size() ) + "=" + datastr( v.data(), v.size() );
                else
                    s += "false";
            }
            std::vector<std::string> names;
            if ( n > 0 )
                names.push_back( first );
            names.push_back( "zz_absent" );
            for ( auto& f : names ) {
                std::string v;
                s += " byname:" + datastr( f.data(), f.size() ) + "=";
                s += a.get_attribute( f, v ) ? datastr( v.data(), v.size() ) : std::string( "false" );
            }
            fprintf( out, "modinfo %s\n", s.c_str() );
        }
        else if ( op == "syms" ) {
            section* sec = c.elf->sections[(unsigned)num( t[1] )];
            if ( !sec ) {
                fprintf( out, "null\n" );
                continue;
            }
            symbol_section_accessor a( *c.elf, sec );
            Elf_Xword               n = a.get_symbols_num();
            std::string             s = "n=" + std::to_string( n );
            for ( auto k : bidx( n, 0, false, true ) ) {
                std::string   name;
                Elf64_Addr    value = 0;
                Elf_Xword     size  = 0;
                unsigned char bind = 0, type = 0, other = 0;
                Elf_Half      shndx = 0;
                bool          r     = a.get_symbol( k, name, value, size, bind, type, shndx, other );
                s += " " + std::to_string( k ) + ":" + ( r ? "true" : "false" ) + "/" + datastr( name.data(), name.size() ) + "/" +
                     std::to_string( value ) + "/" + std::to_string( size ) + "/" + std::to_string( bind ) + "/" +
                     std::to_string( type ) + "/" + std::to_string( shndx ) + "/" + std::to_string( other );
            }
            fprintf( out, "syms %s\n", s.c_str() );
        }
        // ---- end of C01 inspection ops ----------------------------------------------------------
        else if ( op == "create" ) {
            unsigned char cls = kvn( t, "cls", 64 ) == 32 ? ELFCLASS32 : ELFCLASS64;
            std::string   e;
            unsigned char enc = ( kv( t, "enc", e ) && e == "msb" ) ? ELFDATA2MSB : ELFDATA2LSB;
            c.elf->create( cls, enc );
            fprintf( out, "ok\n" );
        }
        else if ( op == "hset" && t.size() == 3 ) {
            unsigned long long v = num( t[2] );
            if ( t[1] == "os_abi" ) c.elf->set_os_abi( (unsigned char)v );
            else if ( t[1] == "abi_version" ) c.elf->set_abi_version( (unsigned char)v );
            else if ( t[1] == "type" ) c.elf->set_type( (Elf_Half)v );
            else if ( t[1] == "machine" ) c.elf->set_machine( (Elf_Half)v );
            else if ( t[1] == "flags" ) c.elf->set_flags( (Elf_Word)v );
            else if ( t[1] == "entry" ) c.elf->set_entry( v );
            fprintf( out, "ok\n" );
        }
        else if ( op == "addsec" ) {
            std::string nm, d;
            kv( t, "name", nm );
            section* s = c.elf->sections.add( unhex( nm ) );
            s->set_type( (Elf_Word)kvn( t, "type", 1 ) );
            s->set_flags( kvn( t, "flags", 0 ) );
            s->set_addr_align( kvn( t, "align", 0 ) );
            s->set_entry_size( kvn( t, "entsize", 0 ) );
            s->set_link( (Elf_Word)kvn( t, "link", 0 ) );
            s->set_info( (Elf_Word)kvn( t, "info", 0 ) );
            if ( kv( t, "addr", d ) )
                s->set_address( num( d ) );
            if ( kv( t, "data", d ) ) {
                std::string b = unhex( d );
                s->set_data( b.data(), b.size() );
            }
            if ( kv( t, "size", d ) )
                s->set_size( num( d ) );
            fprintf( out, "idx=%u\n", s->get_index() );
        }
        else if ( op == "secset" && t.size() == 4 ) {
            section* s = c.elf->sections[(unsigned)num( t[1] )];
            if ( !s ) {
                fprintf( out, "null\n" );
                continue;
            }
            unsigned long long v = num( t[3] );
            if ( t[2] == "type" ) s->set_type( (Elf_Word)v );
            else if ( t[2] == "flags" ) s->set_flags( v );
            else if ( t[2] == "info" ) s->set_info( (Elf_Word)v );
            else if ( t[2] == "link" ) s->set_link( (Elf_Word)v );
            else if ( t[2] == "align" ) s->set_addr_align( v );
            else if ( t[2] == "entsize" ) s->set_entry_size( v );
            else if ( t[2] == "addr" ) s->set_address( v );
            else if ( t[2] == "size" ) s->set_size( v );
            else if ( t[2] == "nameoff" ) s->set_name_string_offset( (Elf_Word)v );
            fprintf( out, "ok\n" );
        }
        else if ( op == "secedit" && t.size() >= 4 ) {
            section* s = c.elf->sections[(unsigned)num( t[1] )];
            if ( !s ) {
                fprintf( out, "null\n" );
                continue;
            }
            if ( t[2] == "set" ) {
                std::string b = unhex( t[3] );
                s->set_data( b.data(), b.size() );
            }
            else if ( t[2] == "app" ) {
                std::string b = unhex( t[3] );
                s->append_data( b.data(), b.size() );
            }
            else if ( t[2] == "ins" && t.size() == 5 ) {
                std::string b = unhex( t[4] );
                s->insert_data( num( t[3] ), b.data(), b.size() );
            }
            fprintf( out, "ok\n" );
        }
        else if ( op == "addseg" ) {
            segment*    g = c.elf->segments.add();
            std::string d;
            g->set_type( (Elf_Word)kvn( t, "type", 1 ) );
            g->set_flags( (Elf_Word)kvn( t, "flags", 0 ) );
            g->set_align( kvn( t, "align", 0 ) );
            g->set_virtual_address( kvn( t, "vaddr", 0 ) );
            g->set_physical_address( kvn( t, "paddr", 0 ) );
            if ( kv( t, "memsz", d ) )
                g->set_memory_size( num( d ) );
            if ( kv( t, "filesz", d ) )
                g->set_file_size( num( d ) );
            fprintf( out, "idx=%u\n", g->get_index() );
        }
        else if ( op == "segadd" && t.size() >= 3 ) {
            unsigned j = (unsigned)num( t[1] ), i = (unsigned)num( t[2] );
            if ( j >= c.elf->segments.size() ) {
                fprintf( out, "null\n" );
                continue;
            }
            section*  s  = c.elf->sections[i];
            Elf_Xword al = t.size() > 3 ? num( t[3] ) : ( s ? s->get_addr_align() : 0 );
            Elf_Half  n  = c.elf->segments[j]->add_section_index( (Elf_Half)i, al );
            fprintf( out, "n=%u\n", n );
        }
        else if ( op == "save" ) {
            long long  budget = (long long)kvn( t, "budget", (unsigned long long)-1 );
            std::string d;
            bool        r;
            if ( kvn( t, "file", 0 ) == 1 ) {
                // file-name overload onto a real file that cannot grow beyond `budget` bytes
                // (RLIMIT_FSIZE: the write that crosses the limit is cut short and fails with EFBIG)
                std::string p = "/tmp/vh_savelim_" + std::to_string( getpid() ) + ".bin";
                signal( SIGXFSZ, SIG_IGN );
                struct rlimit old_lim, lim;
                getrlimit( RLIMIT_FSIZE, &old_lim );
                lim = old_lim;
                if ( kv( t, "budget", d ) ) {
                    lim.rlim_cur = (rlim_t)budget;
                    setrlimit( RLIMIT_FSIZE, &lim );
                }
                r = c.elf->save( p );
                setrlimit( RLIMIT_FSIZE, &old_lim );
                unlink( p.c_str() );
                c.saved.clear();
                fprintf( out, "save=%s bytes=-\n", r ? "true" : "false" );
                fflush( out );
                continue;
            }
            if ( kv( t, "budget", d ) ) {
                budget_buf   bb( budget );
                std::ostream os( &bb );
                r       = c.elf->save( os );
                c.saved = bb.content;
            }
            else {
                std::ostringstream os;
                r       = c.elf->save( os );
                c.saved = os.str();
            }
            save_line( out, r, c.saved, kv( t, "out", d ) && d == "sum" );
        }
        else if ( op == "savefile" ) {
            // save(const std::string&): kind=ok (a writable temporary file), nodir (directory does not
            // exist), dir (the path is a directory), full (/dev/full: every write is refused with ENOSPC)
            std::string kind, d, p;
            kv( t, "kind", kind );
            bool tmp = false;
            if ( kind == "nodir" )
                p = "/nonexistent-dir-vh/x.elf";
            else if ( kind == "dir" )
                p = "/tmp";
            else if ( kind == "full" )
                p = "/dev/full";
            else {
                p   = "/tmp/vh_save_" + std::to_string( getpid() ) + ".bin";
                tmp = true;
            }
            bool r = c.elf->save( p );
            if ( tmp ) {
                std::ifstream      f( p, std::ios::binary );
                std::ostringstream ss;
                ss << f.rdbuf();
                c.saved = ss.str();
                unlink( p.c_str() );
                save_line( out, r, c.saved, kv( t, "out", d ) && d == "sum" );
            }
            else
                fprintf( out, "save=%s bytes=-\n", r ? "true" : "false" );
        }
        else if ( op == "forceoverlap" && ( t.size() == 3 || t.size() == 4 ) ) {
            // in the saved image: sh_offset of section j := sh_offset of section i
            Img    m = parse_img( c.saved );
            size_t i = (size_t)num( t[1] ), j = (size_t)num( t[2] );
            size_t fo = m.c64 ? 24 : 16;
            int    w  = m.c64 ? 8 : 4;
            if ( !m.ok || i >= m.shnum || j >= m.shnum || m.shoff + ( std::max( i, j ) + 1 ) * m.shent > c.saved.size() ) {
                fprintf( out, "bad-op\n" );
                continue;
            }
            unsigned long long oi = rdf( c.saved, m.shoff + i * m.shent + fo, w, m.msb );
            wrf( c.saved, m.shoff + j * m.shent + fo, w, m.msb, oi + ( t.size() == 4 ? num( t[3] ) : 0 ) );
            fprintf( out, "ok\n" );
        }
        else if ( op == "skew" && t.size() == 3 ) {
            // in the saved image: p_vaddr of segment j += d
            Img    m = parse_img( c.saved );
            size_t j = (size_t)num( t[1] );
            size_t fo = m.c64 ? 16 : 8;
            int    w  = m.c64 ? 8 : 4;
            if ( !m.ok || j >= m.phnum || m.phoff + ( j + 1 ) * m.phent > c.saved.size() ) {
                fprintf( out, "bad-op\n" );
                continue;
            }
            unsigned long long v = rdf( c.saved, m.phoff + j * m.phent + fo, w, m.msb );
            wrf( c.saved, m.phoff + j * m.phent + fo, w, m.msb, v + num( t[2] ) );
            fprintf( out, "ok\n" );
        }
        else if ( op == "reload" ) {
            c.ss   = std::make_unique<std::istringstream>( c.saved );
            bool r = c.elf->load( *c.ss, kvn( t, "lazy", 0 ) == 1 );
            fprintf( out, "load=%s\n", r ? "true" : "false" );
        }
        else if ( op == "validate" ) {
            std::string        e = c.elf->validate();
            std::istringstream is( e );
            std::string        ln, conf;
            int                ov = 0;
            while ( std::getline( is, ln ) ) {
                if ( ln.rfind( "Sections ", 0 ) == 0 )
                    ++ov;
                else if ( ln.rfind( "Virtual address of segment ", 0 ) == 0 )
                    conf += ( conf.empty() ? "" : "," ) + std::to_string( atoi( ln.c_str() + 27 ) );
            }
            fprintf( out, "validate overlaps=%d conflicts=%s\n", ov, conf.empty() ? "-" : conf.c_str() );
        }
        else if ( op == "dump" ) {
            std::ostringstream os;
            dump::header( os, *c.elf );
            dump::section_headers( os, *c.elf );
            dump::segment_headers( os, *c.elf );
            dump::symbol_tables( os, *c.elf );
            dump::notes( os, *c.elf );
            dump::modinfo( os, *c.elf );
            dump::dynamic_tags( os, *c.elf );
            dump::section_datas( os, *c.elf );
            dump::segment_datas( os, *c.elf );
            fprintf( out, "dump=ok\n" );
        }
        else if ( c18::op( c, t, out ) ) { // ---- C18 table query ops
        }
        else
            fprintf( out, "bad-op\n" );
        fflush( out );
    }
}

int main() { return run_all( std::cin, run_case ); }
