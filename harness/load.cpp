// Correspondence harness, family load: elfio::load on arbitrary bytes + inspection.
#define VH_MAIN
#include "common.hpp"
#include <fstream>
#include <elfio/elfio_dump.hpp>
using namespace ELFIO;
using namespace vh;

static unsigned long long fnv( const char* p, size_t n )
{
    unsigned long long h = 1469598103934665603ULL;
    for ( size_t i = 0; i < n; ++i ) {
        h ^= (unsigned char)p[i];
        h *= 1099511628211ULL;
    }
    return h;
}
static std::string datastr( const char* d, size_t n )
{
    if ( !d )
        return "null";
    if ( n <= 64 )
        return hex( d, n );
    return "len:" + std::to_string( n ) + ":fnv:" + std::to_string( fnv( d, n ) );
}

// --- independent byte patching of a saved image (no ELFIO involved)
static unsigned long long rdf( const std::string& b, size_t off, int w, bool msb )
{
    unsigned long long v = 0;
    for ( int i = 0; i < w; ++i ) {
        unsigned char c = (unsigned char)b[off + ( msb ? i : w - 1 - i )];
        v               = ( v << 8 ) | c;
    }
    return v;
}
static void wrf( std::string& b, size_t off, int w, bool msb, unsigned long long v )
{
    for ( int i = 0; i < w; ++i ) {
        unsigned char c            = (unsigned char)( v >> ( 8 * i ) );
        b[off + ( msb ? w - 1 - i : i )] = (char)c;
    }
}
struct Img
{
    bool   c64, msb;
    size_t shoff, shent, shnum, phoff, phent, phnum;
    bool   ok;
};
static Img parse_img( const std::string& b )
{
    Img m{};
    if ( b.size() < 52 )
        return m;
    m.c64 = b[4] == 2;
    m.msb = b[5] == 2;
    if ( m.c64 && b.size() < 64 )
        return m;
    m.phoff = (size_t)rdf( b, m.c64 ? 32 : 28, m.c64 ? 8 : 4, m.msb );
    m.shoff = (size_t)rdf( b, m.c64 ? 40 : 32, m.c64 ? 8 : 4, m.msb );
    m.phent = (size_t)rdf( b, m.c64 ? 54 : 42, 2, m.msb );
    m.phnum = (size_t)rdf( b, m.c64 ? 56 : 44, 2, m.msb );
    m.shent = (size_t)rdf( b, m.c64 ? 58 : 46, 2, m.msb );
    m.shnum = (size_t)rdf( b, m.c64 ? 60 : 48, 2, m.msb );
    m.ok    = true;
    return m;
}

struct Ctx
{
    std::unique_ptr<elfio>              elf;
    std::unique_ptr<std::istringstream> ss;
    std::vector<address_translation>    trans;
    std::string                         saved; // bytes of the last save
};

// ---- C18 table query ops (rel, symname, symvalue, arr32, arr64, versym, verneed, verdef, arrange, swap, alarm)
#include "c18_ops.hpp"

static void run_case( const std::vector<Toks>& ops, FILE* out )
{
    std::vector<std::unique_ptr<Ctx>> objs;
    objs.emplace_back( new Ctx );
    objs[0]->elf = std::make_unique<elfio>();
    size_t cur   = 0;
    for ( auto& t : ops ) {
        const std::string& op = t[0];
        if ( op == "obj" ) {
            cur = (size_t)num( t[1] );
            while ( objs.size() <= cur ) {
                objs.emplace_back( new Ctx );
                objs.back()->elf = std::make_unique<elfio>();
            }
            fprintf( out, "ok\n" );
            fflush( out );
            continue;
        }
        Ctx& c = *objs[cur];
        if ( op == "trans" ) {
            c.trans.clear();
            for ( size_t i = 1; i + 2 < t.size(); i += 3 )
                c.trans.emplace_back( num( t[i] ), num( t[i + 1] ), num( t[i + 2] ) );
            c.elf->set_address_translation( c.trans );
            fprintf( out, "ok\n" );
        }
        else if ( op == "load" ) {
            std::string img  = unhex( t[1] );
            bool        lazy = kvn( t, "lazy", 0 ) == 1;
            std::string kind;
            kv( t, "kind", kind );
            alloc_log.clear();
            alloc_log_on = true;
            bool r;
            if ( kind == "file" ) {
                std::string p = "/tmp/vh_load_" + std::to_string( getpid() ) + ".bin";
                {
                    std::ofstream f( p, std::ios::binary );
                    f.write( img.data(), img.size() );
                }
                r = c.elf->load( p, lazy );
                unlink( p.c_str() ); // the open descriptor stays valid for lazy reads
            }
            else {
                c.ss = std::make_unique<std::istringstream>( img );
                r    = c.elf->load( *c.ss, lazy );
            }
            alloc_log_on = false;
            std::string al;
            for ( size_t a : alloc_log )
                al += ( al.empty() ? "" : "," ) + std::to_string( a );
            fprintf( out, "load=%s allocs=%s\n", r ? "true" : "false", al.empty() ? "-" : al.c_str() );
        }
        else if ( op == "hdr" ) {
            elfio& e = *c.elf;
            fprintf( out, "class=%u ver=%u enc=%u version=%u ehsize=%u shentsize=%u phentsize=%u osabi=%u abiver=%u type=%u machine=%u flags=%u entry=%llu shoff=%llu phoff=%llu shstrndx=%u nsec=%u nseg=%u\n",
                     e.get_class(), e.get_elf_version(), e.get_encoding(), e.get_version(), e.get_header_size(),
                     e.get_section_entry_size(), e.get_segment_entry_size(), e.get_os_abi(), e.get_abi_version(),
                     e.get_type(), e.get_machine(), e.get_flags(), (unsigned long long)e.get_entry(),
                     (unsigned long long)e.get_sections_offset(), (unsigned long long)e.get_segments_offset(),
                     e.get_section_name_str_index(), (unsigned)e.sections.size(), (unsigned)e.segments.size() );
        }
        else if ( op == "sec" ) {
            unsigned i = (unsigned)num( t[1] );
            section* s = c.elf->sections[i];
            if ( !s ) {
                fprintf( out, "null\n" );
                continue;
            }
            bool        nodata = kvn( t, "data", 1 ) == 0;
            const char* d      = nodata ? nullptr : s->get_data();
            fprintf( out, "idx=%u name=%s nameoff=%u type=%u flags=%llu addr=%llu off=%llu size=%llu link=%u info=%u align=%llu entsize=%llu data=%s\n",
                     s->get_index(), hex( s->get_name() ).c_str(), s->get_name_string_offset(), s->get_type(),
                     (unsigned long long)s->get_flags(), (unsigned long long)s->get_address(),
                     (unsigned long long)s->get_offset(), (unsigned long long)s->get_size(), s->get_link(),
                     s->get_info(), (unsigned long long)s->get_addr_align(), (unsigned long long)s->get_entry_size(),
                     nodata ? "skipped" : datastr( d, (size_t)s->get_size() ).c_str() );
        }
        else if ( op == "seg" ) {
            unsigned i = (unsigned)num( t[1] );
            if ( i >= c.elf->segments.size() ) {
                fprintf( out, "null\n" );
                continue;
            }
            segment*    g      = c.elf->segments[i];
            bool        nodata = kvn( t, "data", 1 ) == 0;
            const char* d      = nodata ? nullptr : g->get_data();
            std::string m;
            for ( Elf_Half k = 0; k < g->get_sections_num(); ++k )
                m += ( m.empty() ? "" : "," ) + std::to_string( g->get_section_index_at( k ) );
            fprintf( out, "idx=%u type=%u flags=%u off=%llu vaddr=%llu paddr=%llu filesz=%llu memsz=%llu align=%llu members=%s data=%s\n",
                     g->get_index(), g->get_type(), g->get_flags(), (unsigned long long)g->get_offset(),
                     (unsigned long long)g->get_virtual_address(), (unsigned long long)g->get_physical_address(),
                     (unsigned long long)g->get_file_size(), (unsigned long long)g->get_memory_size(),
                     (unsigned long long)g->get_align(), m.empty() ? "-" : m.c_str(),
                     nodata ? "skipped" : datastr( d, (size_t)g->get_file_size() ).c_str() );
        }
        else if ( op == "secfree" ) {
            section* s = c.elf->sections[(unsigned)num( t[1] )];
            if ( s )
                s->free_data();
            fprintf( out, "ok\n" );
        }
        else if ( op == "segfree" ) {
            unsigned i = (unsigned)num( t[1] );
            if ( i < c.elf->segments.size() )
                c.elf->segments[i]->free_data();
            fprintf( out, "ok\n" );
        }
        else if ( op == "str" ) {
            section* s = c.elf->sections[(unsigned)num( t[1] )];
            if ( !s ) {
                fprintf( out, "null\n" );
                continue;
            }
            string_section_accessor a( s );
            const char*             p = a.get_string( (Elf_Word)num( t[2] ) );
            fprintf( out, "str=%s\n", p ? hex( std::string( p ) ).c_str() : "null" );
        }
        else if ( op == "create" ) {
            unsigned char cls = kvn( t, "cls", 64 ) == 32 ? ELFCLASS32 : ELFCLASS64;
            std::string   e;
            unsigned char enc = ( kv( t, "enc", e ) && e == "msb" ) ? ELFDATA2MSB : ELFDATA2LSB;
            c.elf->create( cls, enc );
            fprintf( out, "ok\n" );
        }
        else if ( op == "hset" && t.size() == 3 ) {
            unsigned long long v = num( t[2] );
            if ( t[1] == "os_abi" ) c.elf->set_os_abi( (unsigned char)v );
            else if ( t[1] == "abi_version" ) c.elf->set_abi_version( (unsigned char)v );
            else if ( t[1] == "type" ) c.elf->set_type( (Elf_Half)v );
            else if ( t[1] == "machine" ) c.elf->set_machine( (Elf_Half)v );
            else if ( t[1] == "flags" ) c.elf->set_flags( (Elf_Word)v );
            else if ( t[1] == "entry" ) c.elf->set_entry( v );
            fprintf( out, "ok\n" );
        }
        else if ( op == "addsec" ) {
            std::string nm, d;
            kv( t, "name", nm );
            section* s = c.elf->sections.add( unhex( nm ) );
            s->set_type( (Elf_Word)kvn( t, "type", 1 ) );
            s->set_flags( kvn( t, "flags", 0 ) );
            s->set_addr_align( kvn( t, "align", 0 ) );
            s->set_entry_size( kvn( t, "entsize", 0 ) );
            s->set_link( (Elf_Word)kvn( t, "link", 0 ) );
            s->set_info( (Elf_Word)kvn( t, "info", 0 ) );
            if ( kv( t, "addr", d ) )
                s->set_address( num( d ) );
            if ( kv( t, "data", d ) ) {
                std::string b = unhex( d );
                s->set_data( b.data(), b.size() );
            }
            if ( kv( t, "size", d ) )
                s->set_size( num( d ) );
            fprintf( out, "idx=%u\n", s->get_index() );
        }
        else if ( op == "secset" && t.size() == 4 ) {
            section* s = c.elf->sections[(unsigned)num( t[1] )];
            if ( !s ) {
                fprintf( out, "null\n" );
                continue;
            }
            unsigned long long v = num( t[3] );
            if ( t[2] == "type" ) s->set_type( (Elf_Word)v );
            else if ( t[2] == "flags" ) s->set_flags( v );
            else if ( t[2] == "info" ) s->set_info( (Elf_Word)v );
            else if ( t[2] == "link" ) s->set_link( (Elf_Word)v );
            else if ( t[2] == "align" ) s->set_addr_align( v );
            else if ( t[2] == "entsize" ) s->set_entry_size( v );
            else if ( t[2] == "addr" ) s->set_address( v );
            else if ( t[2] == "size" ) s->set_size( v );
            else if ( t[2] == "nameoff" ) s->set_name_string_offset( (Elf_Word)v );
            fprintf( out, "ok\n" );
        }
        else if ( op == "secedit" && t.size() >= 4 ) {
            section* s = c.elf->sections[(unsigned)num( t[1] )];
            if ( !s ) {
                fprintf( out, "null\n" );
                continue;
            }
            if ( t[2] == "set" ) {
                std::string b = unhex( t[3] );
                s->set_data( b.data(), b.size() );
            }
            else if ( t[2] == "app" ) {
                std::string b = unhex( t[3] );
                s->append_data( b.data(), b.size() );
            }
            else if ( t[2] == "ins" && t.size() == 5 ) {
                std::string b = unhex( t[4] );
                s->insert_data( num( t[3] ), b.data(), b.size() );
            }
            fprintf( out, "ok\n" );
        }
        else if ( op == "addseg" ) {
            segment*    g = c.elf->segments.add();
            std::string d;
            g->set_type( (Elf_Word)kvn( t, "type", 1 ) );
            g->set_flags( (Elf_Word)kvn( t, "flags", 0 ) );
            g->set_align( kvn( t, "align", 0 ) );
            g->set_virtual_address( kvn( t, "vaddr", 0 ) );
            g->set_physical_address( kvn( t, "paddr", 0 ) );
            if ( kv( t, "memsz", d ) )
                g->set_memory_size( num( d ) );
            if ( kv( t, "filesz", d ) )
                g->set_file_size( num( d ) );
            fprintf( out, "idx=%u\n", g->get_index() );
        }
        else if ( op == "segadd" && t.size() >= 3 ) {
            unsigned j = (unsigned)num( t[1] ), i = (unsigned)num( t[2] );
            if ( j >= c.elf->segments.size() ) {
                fprintf( out, "null\n" );
                continue;
            }
            section*  s  = c.elf->sections[i];
            Elf_Xword al = t.size() > 3 ? num( t[3] ) : ( s ? s->get_addr_align() : 0 );
            Elf_Half  n  = c.elf->segments[j]->add_section_index( (Elf_Half)i, al );
            fprintf( out, "n=%u\n", n );
        }
        else if ( op == "save" ) {
            long long  budget = (long long)kvn( t, "budget", (unsigned long long)-1 );
            std::string d;
            bool        r;
            if ( kv( t, "budget", d ) ) {
                budget_buf   bb( budget );
                std::ostream os( &bb );
                r       = c.elf->save( os );
                c.saved = bb.content;
            }
            else {
                std::ostringstream os;
                r       = c.elf->save( os );
                c.saved = os.str();
            }
            fprintf( out, "save=%s bytes=%s\n", r ? "true" : "false", hex( c.saved ).c_str() );
        }
        else if ( op == "forceoverlap" && ( t.size() == 3 || t.size() == 4 ) ) {
            // in the saved image: sh_offset of section j := sh_offset of section i
            Img    m = parse_img( c.saved );
            size_t i = (size_t)num( t[1] ), j = (size_t)num( t[2] );
            size_t fo = m.c64 ? 24 : 16;
            int    w  = m.c64 ? 8 : 4;
            if ( !m.ok || i >= m.shnum || j >= m.shnum || m.shoff + ( std::max( i, j ) + 1 ) * m.shent > c.saved.size() ) {
                fprintf( out, "bad-op\n" );
                continue;
            }
            unsigned long long oi = rdf( c.saved, m.shoff + i * m.shent + fo, w, m.msb );
            wrf( c.saved, m.shoff + j * m.shent + fo, w, m.msb, oi + ( t.size() == 4 ? num( t[3] ) : 0 ) );
            fprintf( out, "ok\n" );
        }
        else if ( op == "skew" && t.size() == 3 ) {
            // in the saved image: p_vaddr of segment j += d
            Img    m = parse_img( c.saved );
            size_t j = (size_t)num( t[1] );
            size_t fo = m.c64 ? 16 : 8;
            int    w  = m.c64 ? 8 : 4;
            if ( !m.ok || j >= m.phnum || m.phoff + ( j + 1 ) * m.phent > c.saved.size() ) {
                fprintf( out, "bad-op\n" );
                continue;
            }
            unsigned long long v = rdf( c.saved, m.phoff + j * m.phent + fo, w, m.msb );
            wrf( c.saved, m.phoff + j * m.phent + fo, w, m.msb, v + num( t[2] ) );
            fprintf( out, "ok\n" );
        }
        else if ( op == "reload" ) {
            c.ss   = std::make_unique<std::istringstream>( c.saved );
            bool r = c.elf->load( *c.ss, kvn( t, "lazy", 0 ) == 1 );
            fprintf( out, "load=%s\n", r ? "true" : "false" );
        }
        else if ( op == "validate" ) {
            std::string        e = c.elf->validate();
            std::istringstream is( e );
            std::string        ln, conf;
            int                ov = 0;
            while ( std::getline( is, ln ) ) {
                if ( ln.rfind( "Sections ", 0 ) == 0 )
                    ++ov;
                else if ( ln.rfind( "Virtual address of segment ", 0 ) == 0 )
                    conf += ( conf.empty() ? "" : "," ) + std::to_string( atoi( ln.c_str() + 27 ) );
            }
            fprintf( out, "validate overlaps=%d conflicts=%s\n", ov, conf.empty() ? "-" : conf.c_str() );
        }
        else if ( op == "dump" ) {
            std::ostringstream os;
            dump::header( os, *c.elf );
            dump::section_headers( os, *c.elf );
            dump::segment_headers( os, *c.elf );
            dump::symbol_tables( os, *c.elf );
            dump::notes( os, *c.elf );
            dump::modinfo( os, *c.elf );
            dump::dynamic_tags( os, *c.elf );
            dump::section_datas( os, *c.elf );
            dump::segment_datas( os, *c.elf );
            fprintf( out, "dump=ok\n" );
        }
        else if ( c18::op( c, t, out ) ) { // ---- C18 table query ops
        }
        else
            fprintf( out, "bad-op\n" );
        fflush( out );
    }
}

int main() { return run_all( std::cin, run_case ); }
