// Correspondence harness, family c14: array / modinfo / versym / verneed / verdef accessors
// of the real library.  One setup line per case, then operations; one output line per line.
//
//   arr cls= enc= w=4|8 [type=14]            array_section_accessor<Elf32_Word|Elf64_Addr>
//   mod cls= enc=                            modinfo_section_accessor
//   vs  cls= enc=                            versym_section_accessor
//   vn  cls= enc= num= data= str= dyn=       versym_r_section_accessor on injected bytes
//   vd  cls= enc= num= data= str= dyn=       versym_d_section_accessor on injected bytes
//   file path= kind=arr|mod|vs|vn|vd sec= [w=] ...   the same accessors on a section of a bundled file
//        (data=/str=/num= on that line are for the model only: what an independent parser read)
//
//   add .. | get i | find f | num | reacc | reload lazy=0|1 | setraw hex (drops the accessor; reacc/reload makes a new one)
#define VH_MAIN
#include "common.hpp"
using namespace ELFIO;
using namespace vh;

struct Ctx
{
    std::unique_ptr<elfio>                                elf;
    std::unique_ptr<std::istringstream>                   stream;
    section*                                              sec = nullptr;
    std::string                                           kind, secname;
    int                                                   w = 4;
    std::unique_ptr<array_section_accessor<Elf32_Word>>   a32;
    std::unique_ptr<array_section_accessor<Elf64_Addr>>   a64;
    std::unique_ptr<modinfo_section_accessor>             mod;
    std::unique_ptr<versym_section_accessor>              vs;
};

static std::string datahex( section* s )
{
    const char* d = s->get_data();
    return d ? hex( d, (size_t)s->get_size() ) : std::string( "null" );
}

static void make_acc( Ctx& c )
{
    c.a32.reset();
    c.a64.reset();
    c.mod.reset();
    c.vs.reset();
    if ( c.kind == "arr" ) {
        if ( c.w == 4 )
            c.a32 = std::make_unique<array_section_accessor<Elf32_Word>>( *c.elf, c.sec );
        else
            c.a64 = std::make_unique<array_section_accessor<Elf64_Addr>>( *c.elf, c.sec );
    }
    else if ( c.kind == "mod" )
        c.mod = std::make_unique<modinfo_section_accessor>( c.sec );
    else if ( c.kind == "vs" )
        c.vs = std::make_unique<versym_section_accessor>( c.sec );
}

static unsigned long long count( Ctx& c )
{
    if ( c.a32 )
        return c.a32->get_entries_num();
    if ( c.a64 )
        return c.a64->get_entries_num();
    if ( c.mod )
        return c.mod->get_attribute_num();
    if ( c.vs )
        return c.vs->get_entries_num();
    if ( c.kind == "vn" )
        return versym_r_section_accessor( *c.elf, c.sec ).get_entries_num();
    if ( c.kind == "vd" )
        return versym_d_section_accessor( *c.elf, c.sec ).get_entries_num();
    return 0;
}

static void run_case( const std::vector<Toks>& ops, FILE* out )
{
    Ctx c;
    for ( auto& t : ops ) {
        const std::string& op = t[0];
        if ( op == "arr" || op == "mod" || op == "vs" || op == "vn" || op == "vd" ) {
            unsigned char cls = kvn( t, "cls", 64 ) == 32 ? ELFCLASS32 : ELFCLASS64;
            std::string   e;
            unsigned char enc = ( kv( t, "enc", e ) && e == "msb" ) ? ELFDATA2MSB : ELFDATA2LSB;
            c.kind            = op;
            c.w               = (int)kvn( t, "w", 4 );
            c.elf             = std::make_unique<elfio>();
            c.elf->create( cls, enc );
            c.elf->set_type( ET_REL );
            if ( op == "arr" ) {
                c.secname = ".init_array";
                c.sec     = c.elf->sections.add( c.secname );
                c.sec->set_type( (Elf_Word)kvn( t, "type", SHT_INIT_ARRAY ) );
                c.sec->set_entry_size( c.w );
            }
            else if ( op == "mod" ) {
                c.secname = ".modinfo";
                c.sec     = c.elf->sections.add( c.secname );
                c.sec->set_type( SHT_PROGBITS );
            }
            else if ( op == "vs" ) {
                c.secname = ".gnu.version";
                c.sec     = c.elf->sections.add( c.secname );
                c.sec->set_type( SHT_GNU_versym );
                c.sec->set_entry_size( 2 );
            }
            else {
                std::string h;
                section*    str = c.elf->sections.add( ".dynstr" );
                str->set_type( SHT_STRTAB );
                kv( t, "str", h );
                std::string sd = unhex( h );
                str->set_data( sd.data(), sd.size() );
                section* dyn = c.elf->sections.add( ".dynamic" );
                dyn->set_type( SHT_DYNAMIC );
                dyn->set_entry_size( cls == ELFCLASS32 ? sizeof( Elf32_Dyn ) : sizeof( Elf64_Dyn ) );
                dyn->set_link( str->get_index() );
                h.clear();
                kv( t, "dyn", h );
                std::string dd = unhex( h );
                dyn->set_data( dd.data(), dd.size() );
                c.secname = op == "vn" ? ".gnu.version_r" : ".gnu.version_d";
                c.sec     = c.elf->sections.add( c.secname );
                c.sec->set_type( op == "vn" ? SHT_GNU_verneed : SHT_GNU_verdef );
                c.sec->set_link( str->get_index() );
                h.clear();
                kv( t, "data", h );
                std::string vd = unhex( h );
                c.sec->set_data( vd.data(), vd.size() );
            }
            make_acc( c );
            fprintf( out, "num=%llu\n", count( c ) );
            fflush( out );
            continue;
        }
        if ( op == "file" ) {
            std::string path;
            kv( t, "path", path );
            kv( t, "kind", c.kind );
            kv( t, "sec", c.secname );
            c.w   = (int)kvn( t, "w", 4 );
            c.elf = std::make_unique<elfio>();
            if ( !c.elf->load( path, kvn( t, "lazy", 0 ) == 1 ) ) {
                fprintf( out, "bad-op load-failed\n" );
                continue;
            }
            c.sec = c.elf->sections[c.secname];
            if ( !c.sec ) {
                fprintf( out, "bad-op no-such-section\n" );
                continue;
            }
            make_acc( c );
            fprintf( out, "num=%llu\n", count( c ) );
            fflush( out );
            continue;
        }
        if ( !c.sec ) {
            fprintf( out, "bad-op no-section\n" );
            continue;
        }
        bool need_acc = ( c.kind == "arr" || c.kind == "mod" || c.kind == "vs" ) &&
                        ( op == "num" || op == "add" || op == "get" || op == "find" );
        if ( need_acc && !c.a32 && !c.a64 && !c.mod && !c.vs ) {
            fprintf( out, "bad-op no-accessor\n" );
        }
        else if ( op == "num" ) {
            fprintf( out, "num=%llu\n", count( c ) );
        }
        else if ( op == "reacc" ) {
            make_acc( c );
            fprintf( out, "num=%llu\n", count( c ) );
        }
        else if ( op == "setraw" && t.size() == 2 ) {
            std::string d = unhex( t[1] );
            c.a32.reset();
            c.a64.reset();
            c.mod.reset();
            c.vs.reset();
            c.sec->set_data( d.data(), d.size() );
            fprintf( out, "data=%s\n", datahex( c.sec ).c_str() );
        }
        else if ( op == "reload" ) {
            std::ostringstream os;
            if ( !c.elf->save( os ) ) {
                fprintf( out, "bad-op save-failed\n" );
                continue;
            }
            c.a32.reset();
            c.a64.reset();
            c.mod.reset();
            c.vs.reset();
            c.stream = std::make_unique<std::istringstream>( os.str() );
            auto ne  = std::make_unique<elfio>();
            if ( !ne->load( *c.stream, kvn( t, "lazy", 0 ) == 1 ) ) {
                fprintf( out, "bad-op load-failed\n" );
                continue;
            }
            c.elf = std::move( ne );
            c.sec = c.elf->sections[c.secname];
            if ( !c.sec ) {
                fprintf( out, "bad-op no-such-section\n" );
                continue;
            }
            make_acc( c );
            unsigned long long n = count( c );
            fprintf( out, "num=%llu data=%s\n", n, datahex( c.sec ).c_str() );
        }
        else if ( op == "add" && c.kind == "arr" && t.size() == 2 ) {
            if ( c.a32 )
                c.a32->add_entry( num( t[1] ) );
            else
                c.a64->add_entry( num( t[1] ) );
            fprintf( out, "num=%llu data=%s\n", count( c ), datahex( c.sec ).c_str() );
        }
        else if ( op == "get" && c.kind == "arr" && t.size() == 2 ) {
            Elf64_Addr a  = 0;
            bool       ok = c.a32 ? c.a32->get_entry( num( t[1] ), a ) : c.a64->get_entry( num( t[1] ), a );
            if ( ok )
                fprintf( out, "true %llu\n", (unsigned long long)a );
            else
                fprintf( out, "false\n" );
        }
        else if ( op == "add" && c.kind == "mod" && t.size() == 3 ) {
            Elf_Word p = c.mod->add_attribute( unhex( t[1] ), unhex( t[2] ) );
            fprintf( out, "pos=%u num=%llu data=%s\n", p, count( c ), datahex( c.sec ).c_str() );
        }
        else if ( op == "get" && c.kind == "mod" && t.size() == 2 ) {
            std::string f, v;
            if ( c.mod->get_attribute( (Elf_Word)num( t[1] ), f, v ) )
                fprintf( out, "true %s %s\n", hex( f ).c_str(), hex( v ).c_str() );
            else
                fprintf( out, "false\n" );
        }
        else if ( op == "find" && c.kind == "mod" && t.size() == 2 ) {
            std::string f = unhex( t[1] ), v;
            if ( c.mod->get_attribute( std::string_view( f ), v ) )
                fprintf( out, "true %s\n", hex( v ).c_str() );
            else
                fprintf( out, "false\n" );
        }
        else if ( op == "add" && c.kind == "vs" && t.size() == 2 ) {
            bool ok = c.vs->add_entry( (Elf_Half)num( t[1] ) );
            fprintf( out, "%s num=%llu data=%s\n", ok ? "true" : "false", count( c ), datahex( c.sec ).c_str() );
        }
        else if ( op == "get" && c.kind == "vs" && t.size() == 2 ) {
            Elf_Half v = 0;
            if ( c.vs->get_entry( (Elf_Word)num( t[1] ), v ) )
                fprintf( out, "true %u\n", (unsigned)v );
            else
                fprintf( out, "false\n" );
        }
        else if ( op == "get" && c.kind == "vn" && t.size() == 2 ) {
            versym_r_section_accessor acc( *c.elf, c.sec );
            Elf_Half                  version = 0, flags = 0, other = 0;
            Elf_Word                  hash = 0;
            std::string               file, dep;
            if ( acc.get_entry( (Elf_Word)num( t[1] ), version, file, hash, flags, other, dep ) )
                fprintf( out, "true ver=%u file=%s hash=%u flags=%u other=%u name=%s\n", (unsigned)version,
                         hex( file ).c_str(), (unsigned)hash, (unsigned)flags, (unsigned)other, hex( dep ).c_str() );
            else
                fprintf( out, "false\n" );
        }
        else if ( op == "get" && c.kind == "vd" && t.size() == 2 ) {
            versym_d_section_accessor acc( *c.elf, c.sec );
            Elf_Half                  flags = 0, ndx = 0;
            Elf_Word                  hash = 0;
            std::string               dep;
            if ( acc.get_entry( (Elf_Word)num( t[1] ), flags, ndx, hash, dep ) )
                fprintf( out, "true flags=%u ndx=%u hash=%u name=%s\n", (unsigned)flags, (unsigned)ndx,
                         (unsigned)hash, hex( dep ).c_str() );
            else
                fprintf( out, "false\n" );
        }
        else {
            fprintf( out, "bad-op\n" );
        }
        fflush( out );
    }
}

int main() { return run_all( std::cin, run_case ); }
