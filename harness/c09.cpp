// Correspondence harness, family c09: symbol tables through the real symbol_section_accessor
// (and string_section_accessor), hash sections attached from case data, save + reload,
// the two hash functions directly.  The private hash walks are additionally exercised directly
// (`hlookup`): the public by-name lookup hides their result behind the linear fallback.
#define VH_MAIN
#include <algorithm>
#include <array>
#include <cstdint>
#include <cstdlib>
#include <cstring>
#include <deque>
#include <fstream>
#include <functional>
#include <iomanip>
#include <iostream>
#include <limits>
#include <memory>
#include <new>
#include <ostream>
#include <sstream>
#include <string>
#include <string_view>
#include <vector>
#define private public
#include <elfio/elfio.hpp>
#undef private
#include "common.hpp"
using namespace ELFIO;
using namespace vh;

struct Ctx
{
    std::unique_ptr<elfio>              elf;
    std::unique_ptr<std::istringstream> stream;
    section*                            sym = nullptr;
    section*                            str = nullptr;
    std::string                         saved;
};

// sentinels in the out-parameters (the model starts from the same values)
struct Out
{
    std::string   name  = "?";
    Elf64_Addr    value = 0x1111111111111111ull;
    Elf_Xword     size  = 0x2222222222222222ull;
    unsigned char bind = 0x33, type = 0x44, other = 0x66;
    Elf_Half      shndx = 0x5555;
};

static void attrs( FILE* out, const Out& o, bool with_name, bool with_value )
{
    fprintf( out, "true" );
    if ( with_name )
        fprintf( out, " name=%s", hex( o.name ).c_str() );
    if ( with_value )
        fprintf( out, " value=%llu", (unsigned long long)o.value );
    fprintf( out, " size=%llu bind=%u type=%u shndx=%u other=%u\n", (unsigned long long)o.size, o.bind, o.type, o.shndx,
             o.other );
}

// ---- minimal independent decoder of the saved image (section header table only)
static unsigned long long rd( const std::string& f, size_t off, int n, bool msb )
{
    unsigned long long v = 0;
    for ( int i = 0; i < n; ++i ) {
        unsigned char c = off + i < f.size() ? (unsigned char)f[off + i] : 0;
        if ( msb )
            v = ( v << 8 ) | c;
        else
            v |= (unsigned long long)c << ( 8 * i );
    }
    return v;
}
static std::string section_bytes( const std::string& f, unsigned idx )
{
    if ( f.size() < 52 )
        return "";
    bool               c64 = (unsigned char)f[4] == 2, msb = (unsigned char)f[5] == 2;
    unsigned long long shoff = c64 ? rd( f, 0x28, 8, msb ) : rd( f, 0x20, 4, msb );
    unsigned long long shent = c64 ? rd( f, 0x3A, 2, msb ) : rd( f, 0x2E, 2, msb );
    size_t             h     = (size_t)( shoff + shent * idx );
    unsigned long long off   = c64 ? rd( f, h + 0x18, 8, msb ) : rd( f, h + 0x10, 4, msb );
    unsigned long long sz    = c64 ? rd( f, h + 0x20, 8, msb ) : rd( f, h + 0x14, 4, msb );
    if ( off > f.size() || sz > f.size() - off )
        return "";
    return f.substr( (size_t)off, (size_t)sz );
}

static void run_case( const std::vector<Toks>& ops, FILE* out )
{
    Ctx c;
    for ( auto& t : ops ) {
        const std::string& op = t[0];
        if ( op == "hash" && t.size() == 2 ) {
            std::string s = unhex( t[1] );
            fprintf( out, "elf=%u gnu=%u\n", elf_hash( (const unsigned char*)s.c_str() ),
                     elf_gnu_hash( (const unsigned char*)s.c_str() ) );
            fflush( out );
            continue;
        }
        if ( op == "new" ) {
            unsigned char cls = kvn( t, "cls", 64 ) == 32 ? ELFCLASS32 : ELFCLASS64;
            std::string   e;
            unsigned char enc = ( kv( t, "enc", e ) && e == "msb" ) ? ELFDATA2MSB : ELFDATA2LSB;
            c.elf             = std::make_unique<elfio>();
            c.elf->create( cls, enc );
            c.elf->set_type( ET_REL );
            c.str = c.elf->sections.add( ".strtab" );
            c.str->set_type( SHT_STRTAB );
            c.str->set_addr_align( 1 );
            c.sym = c.elf->sections.add( ".symtab" );
            c.sym->set_type( SHT_SYMTAB );
            c.sym->set_addr_align( 8 );
            c.sym->set_link( c.str->get_index() );
            c.sym->set_entry_size( kvn( t, "entsize", c.elf->get_default_entry_size( SHT_SYMTAB ) ) );
            fprintf( out, "ok\n" );
            fflush( out );
            continue;
        }
        if ( !c.elf ) {
            fprintf( out, "bad-op no-file\n" );
            continue;
        }
        if ( op == "add" && t.size() == 8 ) {
            symbol_section_accessor syms( *c.elf, c.sym );
            string_section_accessor strs( c.str );
            std::string             nm = unhex( t[1] );
            Elf_Word i = syms.add_symbol( strs, nm.c_str(), (Elf64_Addr)num( t[2] ), (Elf_Xword)num( t[3] ),
                                          (unsigned char)num( t[4] ), (unsigned char)num( t[5] ),
                                          (unsigned char)num( t[6] ), (Elf_Half)num( t[7] ) );
            fprintf( out, "idx=%u\n", i );
        }
        else if ( op == "addi" && t.size() == 7 ) {
            symbol_section_accessor syms( *c.elf, c.sym );
            Elf_Word i = syms.add_symbol( (Elf_Word)num( t[1] ), (Elf64_Addr)num( t[2] ), (Elf_Xword)num( t[3] ),
                                          (unsigned char)num( t[4] ), (unsigned char)num( t[5] ), (Elf_Half)num( t[6] ) );
            fprintf( out, "idx=%u\n", i );
        }
        else if ( op == "addbt" && t.size() == 8 ) {
            symbol_section_accessor syms( *c.elf, c.sym );
            Elf_Word i = syms.add_symbol( (Elf_Word)num( t[1] ), (Elf64_Addr)num( t[2] ), (Elf_Xword)num( t[3] ),
                                          (unsigned char)num( t[4] ), (unsigned char)num( t[5] ),
                                          (unsigned char)num( t[6] ), (Elf_Half)num( t[7] ) );
            fprintf( out, "idx=%u\n", i );
        }
        else if ( op == "num" ) {
            symbol_section_accessor syms( *c.elf, c.sym );
            fprintf( out, "num=%llu\n", (unsigned long long)syms.get_symbols_num() );
        }
        else if ( op == "get" && t.size() == 2 ) {
            symbol_section_accessor syms( *c.elf, c.sym );
            Out                     o;
            if ( syms.get_symbol( (Elf_Xword)num( t[1] ), o.name, o.value, o.size, o.bind, o.type, o.shndx, o.other ) )
                attrs( out, o, true, true );
            else
                fprintf( out, "false\n" );
        }
        else if ( op == "byname" && t.size() == 2 ) {
            symbol_section_accessor syms( *c.elf, c.sym );
            Out                     o;
            if ( syms.get_symbol( unhex( t[1] ), o.value, o.size, o.bind, o.type, o.shndx, o.other ) )
                attrs( out, o, false, true );
            else
                fprintf( out, "false\n" );
        }
        else if ( op == "hlookup" && t.size() == 2 ) {
            symbol_section_accessor syms( *c.elf, c.sym );
            Out                     o;
            bool                    r = false;
            if ( syms.hash_section == nullptr )
                fprintf( out, "nohash\n" );
            else {
                if ( syms.hash_section->get_type() == SHT_HASH )
                    r = syms.hash_lookup( unhex( t[1] ), o.value, o.size, o.bind, o.type, o.shndx, o.other );
                else if ( c.elf->get_class() == ELFCLASS32 )
                    r = syms.gnu_hash_lookup<uint32_t>( unhex( t[1] ), o.value, o.size, o.bind, o.type, o.shndx, o.other );
                else
                    r = syms.gnu_hash_lookup<uint64_t>( unhex( t[1] ), o.value, o.size, o.bind, o.type, o.shndx, o.other );
                if ( r )
                    attrs( out, o, false, true );
                else
                    fprintf( out, "false\n" );
            }
        }
        else if ( op == "byvalue" && t.size() == 2 ) {
            symbol_section_accessor syms( *c.elf, c.sym );
            Out                     o;
            if ( syms.get_symbol( (Elf64_Addr)num( t[1] ), o.name, o.size, o.bind, o.type, o.shndx, o.other ) )
                attrs( out, o, true, false );
            else
                fprintf( out, "false\n" );
        }
        else if ( op == "sethash" ) {
            std::string h;
            kv( t, "data", h );
            std::string d  = unhex( h );
            Elf_Word    ty = (Elf_Word)kvn( t, "type", SHT_HASH );
            section*    hs = c.elf->sections[".hash"];
            if ( !hs )
                hs = c.elf->sections.add( ".hash" );
            hs->set_type( ty );
            hs->set_addr_align( 8 );
            hs->set_link( c.sym->get_index() );
            hs->set_data( d.data(), d.size() );
            fprintf( out, "ok\n" );
        }
        else if ( op == "save" ) {
            std::ostringstream os;
            if ( !c.elf->save( os ) ) {
                fprintf( out, "bad-op save-failed\n" );
                continue;
            }
            c.saved = os.str();
            fprintf( out, "symtab=%s strtab=%s\n", hex( section_bytes( c.saved, c.sym->get_index() ) ).c_str(),
                     hex( section_bytes( c.saved, c.str->get_index() ) ).c_str() );
        }
        else if ( op == "reload" ) {
            if ( c.saved.empty() ) {
                fprintf( out, "bad-op nothing-saved\n" );
                continue;
            }
            auto st = std::make_unique<std::istringstream>( c.saved );
            auto e  = std::make_unique<elfio>();
            if ( !e->load( *st, kvn( t, "lazy", 0 ) == 1 ) ) {
                fprintf( out, "bad-op load-failed\n" );
                continue;
            }
            c.elf    = std::move( e );
            c.stream = std::move( st );
            c.sym    = c.elf->sections[".symtab"];
            c.str    = c.elf->sections[".strtab"];
            fprintf( out, "ok\n" );
        }
        else
            fprintf( out, "bad-op\n" );
        fflush( out );
    }
}

int main() { return run_all( std::cin, run_case ); }
