// Common part of every correspondence harness: line protocol, one forked child per
// case (so that a sanitizer abort / signal / hang is an observation, not the end of
// the run), allocation log, budgeted output stream.  Built with
//   g++ -std=c++17 -O1 -g -fwrapv -fsanitize=address,undefined
//       -fno-sanitize=alignment,signed-integer-overflow,shift -fno-sanitize-recover=all
//       -D_GLIBCXX_ASSERTIONS -I$ELFIO_REPO
#pragma once
#include <elfio/elfio.hpp>
#include <cstdio>
#include <cstdlib>
#include <cstring>
#include <csignal>
#include <functional>
#include <iostream>
#include <sstream>
#include <string>
#include <vector>
#include <new>
#include <sys/wait.h>
#include <sys/resource.h>
#include <unistd.h>
#include <poll.h>

#ifdef VH_COVERAGE
extern "C" void __gcov_dump( void );
#endif
namespace vh {

using Toks = std::vector<std::string>;

inline std::string hex( const char* p, size_t n )
{
    static const char* d = "0123456789abcdef";
    std::string        s;
    s.reserve( 2 * n + 1 );
    for ( size_t i = 0; i < n; ++i ) {
        unsigned char c = (unsigned char)p[i];
        s += d[c >> 4];
        s += d[c & 15];
    }
    if ( s.empty() )
        s = "-";
    return s;
}
inline std::string hex( const std::string& s ) { return hex( s.data(), s.size() ); }
inline std::string unhex( const std::string& h )
{
    std::string s;
    if ( h == "-" )
        return s;
    auto v = []( char c ) { return c <= '9' ? c - '0' : ( c | 32 ) - 'a' + 10; };
    for ( size_t i = 0; i + 1 < h.size(); i += 2 )
        s += char( v( h[i] ) * 16 + v( h[i + 1] ) );
    return s;
}
inline unsigned long long num( const std::string& s ) { return strtoull( s.c_str(), nullptr, 0 ); }
inline long long          snum( const std::string& s ) { return strtoll( s.c_str(), nullptr, 0 ); }

// key=value lookup inside a token list
inline bool kv( const Toks& t, const std::string& key, std::string& out )
{
    for ( auto& x : t )
        if ( x.size() > key.size() && x.compare( 0, key.size(), key ) == 0 && x[key.size()] == '=' ) {
            out = x.substr( key.size() + 1 );
            return true;
        }
    return false;
}
inline unsigned long long kvn( const Toks& t, const std::string& key, unsigned long long dflt = 0 )
{
    std::string s;
    return kv( t, key, s ) ? num( s ) : dflt;
}

// ---- allocation log: sizes requested through new(nothrow) char[] while enabled
extern bool                alloc_log_on;
extern std::vector<size_t> alloc_log;

// ---- output stream that accepts exactly `budget` bytes, then fails
class budget_buf : public std::streambuf
{
  public:
    explicit budget_buf( long long budget ) : budget( budget ) {}
    std::string content;
    long long   budget; // <0: unlimited
    size_t      pos = 0;

  protected:
    std::streamsize xsputn( const char* s, std::streamsize n ) override
    {
        std::streamsize done = 0;
        for ( ; done < n; ++done ) {
            if ( overflow( (unsigned char)s[done] ) == traits_type::eof() )
                break;
        }
        return done;
    }
    int_type overflow( int_type c ) override
    {
        if ( c == traits_type::eof() )
            return traits_type::not_eof( c );
        size_t need = pos + 1;
        if ( budget >= 0 && (long long)need > budget && need > content.size() )
            return traits_type::eof();
        if ( need > content.size() )
            content.resize( need, '\0' );
        content[pos++] = (char)c;
        return c;
    }
    pos_type seekoff( off_type off, std::ios_base::seekdir dir, std::ios_base::openmode ) override
    {
        long long base = dir == std::ios_base::beg ? 0 : dir == std::ios_base::cur ? (long long)pos : (long long)content.size();
        long long np   = base + off;
        if ( np < 0 || np > (long long)content.size() )
            return pos_type( off_type( -1 ) );
        pos = (size_t)np;
        return pos_type( np );
    }
    pos_type seekpos( pos_type p, std::ios_base::openmode m ) override { return seekoff( off_type( p ), std::ios_base::beg, m ); }
};

using CaseFn = std::function<void( const std::vector<Toks>& ops, FILE* out )>;

inline Toks split( const std::string& line )
{
    Toks               t;
    std::istringstream is( line );
    std::string        w;
    while ( is >> w )
        t.push_back( w );
    return t;
}

// Runs every case of `in` in a forked child; prints "case <id>" then the child's lines,
// then "FAULT <what>" if the child ended abnormally, then "end".
inline int run_all( std::istream& in, const CaseFn& fn, int timeout_s = 20 )
{
    std::vector<std::pair<std::string, std::vector<Toks>>> cases;
    std::string                                            line;
    // check.py re-runs a case that timed out (wall clock, so a loaded machine can cause it) alone with a
    // scaled limit before it believes the timeout
    if ( const char* e = getenv( "VH_TIMEOUT_SCALE" ) )
        timeout_s *= std::max( 1, atoi( e ) );
    while ( std::getline( in, line ) ) {
        Toks t = split( line );
        if ( t.empty() || t[0][0] == '#' )
            continue;
        if ( t[0] == "case" ) {
            cases.push_back( { t.size() > 1 ? t[1] : "?", {} } );
            continue;
        }
        if ( cases.empty() )
            cases.push_back( { "0", {} } );
        cases.back().second.push_back( t );
    }
    for ( auto& c : cases ) {
        fflush( stdout );
        int po[2], pe[2];
        if ( pipe( po ) || pipe( pe ) )
            return 2;
        pid_t pid = fork();
        if ( pid == 0 ) {
            close( po[0] );
            close( pe[0] );
            dup2( pe[1], 2 );
            FILE* out = fdopen( po[1], "w" );
            alarm( timeout_s );
            fn( c.second, out );
            fflush( out );
#ifdef VH_COVERAGE
            __gcov_dump(); // tools/harness_coverage.py: _exit() would drop the counters
#endif
            _exit( 0 );
        }
        close( po[1] );
        close( pe[1] );
        std::string so, se;
        char        buf[65536];
        pollfd      fds[2] = { { po[0], POLLIN, 0 }, { pe[0], POLLIN, 0 } };
        int         open_n = 2;
        while ( open_n > 0 ) {
            if ( poll( fds, 2, -1 ) < 0 )
                break;
            for ( int i = 0; i < 2; ++i ) {
                if ( fds[i].fd >= 0 && ( fds[i].revents & ( POLLIN | POLLHUP ) ) ) {
                    ssize_t n = read( fds[i].fd, buf, sizeof buf );
                    if ( n > 0 ) {
                        if ( se.size() < ( 1u << 20 ) || i == 0 )
                            ( i == 0 ? so : se ).append( buf, (size_t)n );
                    }
                    else {
                        close( fds[i].fd );
                        fds[i].fd = -1;
                        --open_n;
                    }
                }
            }
        }
        int st = 0;
        waitpid( pid, &st, 0 );
        printf( "case %s\n", c.first.c_str() );
        if ( !so.empty() && so.back() != '\n' )
            so += '\n';
        fputs( so.c_str(), stdout );
        bool bad = !( WIFEXITED( st ) && WEXITSTATUS( st ) == 0 );
        if ( bad ) {
            std::string what = "abnormal-exit";
            size_t      p;
            if ( ( p = se.find( "AddressSanitizer: " ) ) != std::string::npos ) {
                size_t e = se.find_first_of( " \n", p + 18 );
                what     = "asan:" + se.substr( p + 18, e - p - 18 );
            }
            else if ( ( p = se.find( "runtime error: " ) ) != std::string::npos ) {
                size_t e = se.find( '\n', p );
                what     = "ubsan:" + se.substr( p + 15, e - p - 15 );
                for ( auto& ch : what )
                    if ( ch == ' ' )
                        ch = '_';
            }
            else if ( se.find( "Assertion" ) != std::string::npos || se.find( "__glibcxx_assert" ) != std::string::npos )
                what = "glibcxx-assertion";
            else if ( WIFSIGNALED( st ) ) {
                int sg = WTERMSIG( st );
                what   = sg == SIGALRM ? "timeout" : sg == SIGSEGV ? "sigsegv" : sg == SIGFPE ? "sigfpe" : sg == SIGABRT ? "sigabrt" : "signal" + std::to_string( sg );
            }
            // first library frame, if the sanitizer printed one
            std::string frame;
            if ( ( p = se.find( "/elfio/elfio" ) ) != std::string::npos ) {
                size_t e = se.find_first_of( " \n", p );
                frame    = se.substr( p + 7, e - p - 7 );
            }
            printf( "FAULT %s %s\n", what.c_str(), frame.c_str() );
        }
        printf( "end\n" );
    }
    fflush( stdout );
    return 0;
}

} // namespace vh

#ifdef VH_MAIN
namespace vh {
bool                alloc_log_on = false;
std::vector<size_t> alloc_log;
} // namespace vh
void* operator new[]( std::size_t n )
{
    void* p = malloc( n ? n : 1 );
    if ( !p )
        throw std::bad_alloc();
    return p;
}
void* operator new[]( std::size_t n, const std::nothrow_t& ) noexcept
{
    if ( vh::alloc_log_on )
        vh::alloc_log.push_back( n );
    return malloc( n ? n : 1 );
}
void operator delete[]( void* p ) noexcept { free( p ); }
void operator delete[]( void* p, std::size_t ) noexcept { free( p ); }
#endif
