// Correspondence harness, family c08: string_section_accessor on the real section_impl.
//   new cls= enc= type=          fresh section in a created elfio           -> size=N
//   loadsec cls= enc= lazy= type= data=HEX   table with these bytes, loaded from a saved file -> size=N
//   set HEX                      section::set_data (exact allocation, maybe unterminated) -> size=N
//   setsize N                    section::set_size (generated for NOBITS sections only: a .bss-like size without data) -> size=N
//   add HEX | adds HEX | addnull add_string(const char*) / (const std::string&) / (nullptr) -> idx=I size=N
//   addselfr K                  add_string( get_string( K-th returned index ) ): the source lies in the section's own buffer -> idx=I size=N
//   get I | cget I | getr K      get_string(I) / via the const accessor / of the K-th returned index
//                                -> null | str off=O s=HEX | outside | unterminated off=O
//   dump                         -> size=N data=HEX|null
//   reload lazy=L                get_data(), save the file to a stringstream, load it again -> size=N
#define VH_MAIN
#include "common.hpp"
using namespace ELFIO;
using namespace vh;

struct Ctx
{
    std::unique_ptr<elfio>              elf;
    std::unique_ptr<std::istringstream> stream; // kept alive for lazily loaded objects
    section*                            sec = nullptr;
    Elf_Half                            index = 0; // found again by index: independent of the name table
    std::vector<Elf_Word>               idxs;
};

// The observation of a get_string result never reads outside [data, data+size).
static void show_get( Ctx& c, const char* p, FILE* out )
{
    const char* d = c.sec->get_data();
    size_t      n = (size_t)c.sec->get_size();
    if ( !p )
        fprintf( out, "null\n" );
    else if ( !d || p < d || p >= d + n )
        fprintf( out, "outside\n" );
    else {
        size_t      off = (size_t)( p - d );
        const char* e   = (const char*)memchr( p, 0, n - off );
        if ( !e )
            fprintf( out, "unterminated off=%zu\n", off );
        else
            fprintf( out, "str off=%zu s=%s\n", off, hex( p, (size_t)( e - p ) ).c_str() );
    }
    fflush( out );
}

static bool load_from( Ctx& c, const std::string& image, bool lazy, FILE* out )
{
    auto stream = std::make_unique<std::istringstream>( image );
    auto elf    = std::make_unique<elfio>();
    if ( !elf->load( *stream, lazy ) ) {
        fprintf( out, "bad-op load-failed\n" );
        return false;
    }
    c.elf    = std::move( elf ); // the old object goes first, then the stream it may still read from
    c.stream = std::move( stream );
    c.sec    = c.index < c.elf->sections.size() ? c.elf->sections[c.index] : nullptr;
    if ( !c.sec ) {
        fprintf( out, "bad-op section-lost\n" );
        return false;
    }
    fprintf( out, "size=%llu\n", (unsigned long long)c.sec->get_size() );
    fflush( out );
    return true;
}

static void run_case( const std::vector<Toks>& ops, FILE* out )
{
    Ctx c;
    for ( auto& t : ops ) {
        const std::string& op = t[0];
        if ( op == "new" || op == "loadsec" ) {
            unsigned char cls = kvn( t, "cls", 64 ) == 32 ? ELFCLASS32 : ELFCLASS64;
            std::string   e;
            unsigned char enc = ( kv( t, "enc", e ) && e == "msb" ) ? ELFDATA2MSB : ELFDATA2LSB;
            Elf_Word      ty  = (Elf_Word)kvn( t, "type", SHT_STRTAB );
            c.idxs.clear();
            if ( op == "new" ) {
                c.elf = std::make_unique<elfio>();
                c.elf->create( cls, enc );
                c.elf->set_type( ET_REL );
                c.sec = c.elf->sections.add( ".tbl" );
                c.sec->set_type( ty );
                c.index = c.sec->get_index();
                fprintf( out, "size=%llu\n", (unsigned long long)c.sec->get_size() );
                fflush( out );
            }
            else {
                std::string h;
                kv( t, "data", h );
                std::string data = unhex( h );
                elfio       w;
                w.create( cls, enc );
                w.set_type( ET_REL );
                section* s = w.sections.add( ".tbl" );
                s->set_type( ty );
                c.index = s->get_index();
                s->set_data( data.data(), data.size() );
                std::ostringstream os;
                if ( !w.save( os ) ) {
                    fprintf( out, "bad-op save-failed\n" );
                    continue;
                }
                load_from( c, os.str(), kvn( t, "lazy", 0 ) == 1, out );
            }
            continue;
        }
        if ( !c.sec ) {
            fprintf( out, "bad-op no-section\n" );
            continue;
        }
        if ( op == "set" && t.size() == 2 ) {
            std::string d = unhex( t[1] );
            c.sec->set_data( d.data(), d.size() );
            fprintf( out, "size=%llu\n", (unsigned long long)c.sec->get_size() );
        }
        else if ( op == "setsize" && t.size() == 2 ) {
            c.sec->set_size( num( t[1] ) );
            fprintf( out, "size=%llu\n", (unsigned long long)c.sec->get_size() );
        }
        else if ( ( op == "add" || op == "adds" ) && t.size() == 2 ) {
            std::string             d = unhex( t[1] );
            string_section_accessor acc( c.sec );
            Elf_Word                i = op == "add" ? acc.add_string( d.c_str() ) : acc.add_string( d );
            c.idxs.push_back( i );
            fprintf( out, "idx=%u size=%llu\n", (unsigned)i, (unsigned long long)c.sec->get_size() );
        }
        else if ( op == "addnull" ) {
            string_section_accessor acc( c.sec );
            Elf_Word                i = acc.add_string( (const char*)nullptr );
            c.idxs.push_back( i );
            fprintf( out, "idx=%u size=%llu\n", (unsigned)i, (unsigned long long)c.sec->get_size() );
        }
        else if ( op == "addselfr" && t.size() == 2 ) {
            size_t k = (size_t)num( t[1] );
            if ( k >= c.idxs.size() ) {
                fprintf( out, "bad-op\n" );
                continue;
            }
            string_section_accessor acc( c.sec );
            Elf_Word                i = acc.add_string( acc.get_string( c.idxs[k] ) );
            c.idxs.push_back( i );
            fprintf( out, "idx=%u size=%llu\n", (unsigned)i, (unsigned long long)c.sec->get_size() );
        }
        else if ( op == "get" && t.size() == 2 ) {
            string_section_accessor acc( c.sec );
            show_get( c, acc.get_string( (Elf_Word)num( t[1] ) ), out );
        }
        else if ( op == "cget" && t.size() == 2 ) {
            const section*                csec = c.sec;
            const_string_section_accessor acc( csec );
            show_get( c, acc.get_string( (Elf_Word)num( t[1] ) ), out );
        }
        else if ( op == "getr" && t.size() == 2 ) {
            size_t k = (size_t)num( t[1] );
            if ( k >= c.idxs.size() ) {
                fprintf( out, "bad-op\n" );
                continue;
            }
            string_section_accessor acc( c.sec );
            show_get( c, acc.get_string( c.idxs[k] ), out );
        }
        else if ( op == "dump" ) {
            const char* d = c.sec->get_data();
            Elf_Xword   n = c.sec->get_size();
            fprintf( out, "size=%llu data=%s\n", (unsigned long long)n, d ? hex( d, (size_t)n ).c_str() : "null" );
        }
        else if ( op == "reload" ) {
            c.sec->get_data(); // lazily loaded data that was never touched is not saved (C05/C15's subject)
            std::ostringstream os;
            if ( !c.elf->save( os ) ) {
                fprintf( out, "bad-op save-failed\n" );
                continue;
            }
            load_from( c, os.str(), kvn( t, "lazy", 0 ) == 1, out );
        }
        else {
            fprintf( out, "bad-op\n" );
            continue;
        }
        fflush( out );
    }
}

int main() { return run_all( std::cin, run_case ); }
