// Correspondence harness, family c13: notes through the real note_section_accessor /
// note_segment_accessor (elfio_note.hpp).  Line protocol (one output line per op):
//   new cls=32|64 enc=lsb|msb [seg=1]          fresh file, empty SHT_NOTE section (+ PT_NOTE segment)
//   loadsec cls= enc= lazy=0|1 seg=0|1 data=H  file whose note section holds the raw bytes H, saved and loaded
//   add type=T name=H desc=H [null=1]          add_note on the section accessor
//   get i=N / gets i=N                         get_note through the section / segment accessor
//   num / nums                                 get_notes_num
//   reacc                                      construct a fresh section accessor on the same section
//   reload lazy=0|1                            save, load, fresh accessors on the loaded section and segment
#define VH_MAIN
#include "common.hpp"
using namespace ELFIO;
using namespace vh;

struct Ctx
{
    std::unique_ptr<elfio>                 elf;
    std::unique_ptr<std::istringstream>    stream; // kept alive for lazily loaded objects
    section*                               sec = nullptr;
    segment*                               seg = nullptr;
    std::unique_ptr<note_section_accessor> acc;
    std::unique_ptr<note_segment_accessor> sacc;
    bool                                   with_seg = false;
};

static void build( elfio& w, unsigned char cls, unsigned char enc, bool with_seg, section*& sec, segment*& seg )
{
    w.create( cls, enc );
    w.set_type( ET_EXEC );
    w.set_machine( EM_X86_64 );
    sec = w.sections.add( ".note" );
    sec->set_type( SHT_NOTE );
    sec->set_addr_align( 4 );
    seg = nullptr;
    if ( with_seg ) {
        sec->set_flags( SHF_ALLOC );
        seg = w.segments.add();
        seg->set_type( PT_NOTE );
        seg->set_flags( PF_R );
        seg->set_align( 4 );
        seg->set_virtual_address( 0x400000 );
        seg->set_physical_address( 0x400000 );
        seg->add_section( sec, 4 );
    }
}

// attach accessors to the loaded image
static bool attach( Ctx& c )
{
    c.sec = c.elf->sections[".note"];
    c.seg = nullptr;
    for ( const auto& s : c.elf->segments )
        if ( s->get_type() == PT_NOTE ) {
            c.seg = s.get();
            break;
        }
    c.acc.reset();
    c.sacc.reset();
    if ( !c.sec )
        return false;
    c.acc = std::make_unique<note_section_accessor>( *c.elf, c.sec );
    if ( c.seg )
        c.sacc = std::make_unique<note_segment_accessor>( *c.elf, c.seg );
    return true;
}

static std::string nums( Ctx& c )
{
    std::string s = "num=" + std::to_string( c.acc->get_notes_num() ) + " segnum=";
    s += c.sacc ? std::to_string( c.sacc->get_notes_num() ) : std::string( "-" );
    return s;
}

template <class A> static void do_get( A& a, Elf_Word i, FILE* out )
{
    Elf_Word    type = 0, dsz = 0;
    std::string name;
    char*       desc = nullptr;
    if ( !a.get_note( i, type, name, desc, dsz ) ) {
        fprintf( out, "false\n" );
        return;
    }
    // the caller's use of the result: descSize bytes at desc
    std::string d = desc ? hex( desc, dsz ) : std::string( "null" );
    fprintf( out, "type=%u name=%s desc=%s dsz=%u\n", type, hex( name ).c_str(), d.c_str(), dsz );
}

static void run_case( const std::vector<Toks>& ops, FILE* out )
{
    Ctx c;
    for ( auto& t : ops ) {
        const std::string& op = t[0];
        if ( op == "new" || op == "loadsec" ) {
            unsigned char cls = kvn( t, "cls", 64 ) == 32 ? ELFCLASS32 : ELFCLASS64;
            std::string   e;
            unsigned char enc = ( kv( t, "enc", e ) && e == "msb" ) ? ELFDATA2MSB : ELFDATA2LSB;
            c.with_seg        = kvn( t, "seg", 0 ) == 1;
            if ( op == "new" ) {
                c.elf = std::make_unique<elfio>();
                build( *c.elf, cls, enc, c.with_seg, c.sec, c.seg );
                c.acc = std::make_unique<note_section_accessor>( *c.elf, c.sec );
                c.sacc.reset();
                fprintf( out, "num=%u\n", c.acc->get_notes_num() );
            }
            else {
                std::string h;
                kv( t, "data", h );
                std::string data = unhex( h );
                elfio       w;
                section*    s;
                segment*    g;
                build( w, cls, enc, c.with_seg, s, g );
                s->set_data( data.data(), data.size() );
                std::ostringstream os;
                if ( !w.save( os ) ) {
                    fprintf( out, "bad-op save-failed\n" );
                    continue;
                }
                c.stream = std::make_unique<std::istringstream>( os.str() );
                c.elf    = std::make_unique<elfio>();
                if ( !c.elf->load( *c.stream, kvn( t, "lazy", 0 ) == 1 ) || !attach( c ) ) {
                    fprintf( out, "bad-op load-failed\n" );
                    continue;
                }
                fprintf( out, "%s\n", nums( c ).c_str() );
            }
            fflush( out );
            continue;
        }
        if ( !c.acc ) {
            fprintf( out, "bad-op no-section\n" );
            continue;
        }
        if ( op == "add" ) {
            std::string hn, hd;
            kv( t, "name", hn );
            kv( t, "desc", hd );
            std::string name = unhex( hn ), desc = unhex( hd );
            bool        null = kvn( t, "null", 0 ) == 1 && desc.empty();
            c.acc->add_note( (Elf_Word)kvn( t, "type", 0 ), name, null ? nullptr : desc.data(), (Elf_Word)desc.size() );
            const char* d = c.sec->get_data();
            Elf_Xword   n = c.sec->get_size();
            fprintf( out, "num=%u size=%llu data=%s\n", c.acc->get_notes_num(), (unsigned long long)n,
                     d ? hex( d, (size_t)n ).c_str() : "null" );
        }
        else if ( op == "get" )
            do_get( *c.acc, (Elf_Word)kvn( t, "i", 0 ), out );
        else if ( op == "gets" ) {
            if ( !c.sacc )
                fprintf( out, "bad-op no-segment\n" );
            else
                do_get( *c.sacc, (Elf_Word)kvn( t, "i", 0 ), out );
        }
        else if ( op == "num" )
            fprintf( out, "num=%u\n", c.acc->get_notes_num() );
        else if ( op == "nums" ) {
            if ( !c.sacc )
                fprintf( out, "bad-op no-segment\n" );
            else
                fprintf( out, "num=%u\n", c.sacc->get_notes_num() );
        }
        else if ( op == "reacc" ) {
            c.acc = std::make_unique<note_section_accessor>( *c.elf, c.sec );
            fprintf( out, "num=%u\n", c.acc->get_notes_num() );
        }
        else if ( op == "reload" ) {
            std::ostringstream os;
            if ( !c.elf->save( os ) ) {
                fprintf( out, "bad-op save-failed\n" );
                continue;
            }
            c.acc.reset();
            c.sacc.reset();
            auto st  = std::make_unique<std::istringstream>( os.str() );
            auto elf = std::make_unique<elfio>();
            bool ok  = elf->load( *st, kvn( t, "lazy", 0 ) == 1 );
            c.elf    = std::move( elf );
            c.stream = std::move( st );
            if ( !ok || !attach( c ) ) {
                fprintf( out, "bad-op load-failed\n" );
                continue;
            }
            const char* d = c.sec->get_data();
            Elf_Xword   n = c.sec->get_size();
            fprintf( out, "%s size=%llu data=%s\n", nums( c ).c_str(), (unsigned long long)n,
                     d ? hex( d, (size_t)n ).c_str() : "null" );
        }
        else
            fprintf( out, "bad-op\n" );
        fflush( out );
    }
}

int main() { return run_all( std::cin, run_case ); }
