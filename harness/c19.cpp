// Correspondence harness, family c19: histories over several elfio objects.
//   new oK [comp=1] | create X cls= enc= | trans X a b c ... | load X <hex> lazy=0|1 |
//   loadmissing X lazy= | mc oD X | ma X Y | del oK | reuse | vnew | vpush oK |
//   obs X | ed X <edit...> | save X
// Objects oK live on the heap (so that `del` really frees them); vK are the elements of one
// std::vector<elfio> (so that growth really move-constructs and destroys them).  `load` goes
// through load(file_name): the file is written to /tmp and unlinked after the call.  After a
// `del`, and on `reuse`, blocks of the sizes just freed are allocated again and overwritten.
#define VH_MAIN
#include "common.hpp"
#include <fstream>
#include <map>
using namespace ELFIO;
using namespace vh;

static unsigned long long fnv( const char* p, size_t n )
{
    unsigned long long h = 1469598103934665603ULL;
    for ( size_t i = 0; i < n; ++i ) {
        h ^= (unsigned char)p[i];
        h *= 1099511628211ULL;
    }
    return h;
}
static std::string datastr( const char* d, size_t n )
{
    if ( !d )
        return "null";
    if ( n <= 64 )
        return hex( d, n );
    return "len:" + std::to_string( n ) + ":fnv:" + std::to_string( fnv( d, n ) );
}

// a compression interface whose deflate is the identity (so the saved bytes are those of the model, which has no
// compression hook) and counts its calls: `save` reports the count behind " ~~ " - implementation-only text that the
// correspondence ignores and the value-semantics oracle compares between an object and its never-moved twin.
// inflate declines (nullptr => the loader keeps the data as read).
static int g_deflate_calls = 0;
struct null_compression : compression_interface
{
    std::unique_ptr<char[]> inflate( const char*, const endianness_convertor*, Elf_Xword, Elf_Xword& ) const override { return nullptr; }
    std::unique_ptr<char[]> deflate( const char* d, const endianness_convertor*, Elf_Xword n, Elf_Xword& out_n ) const override
    {
        ++g_deflate_calls;
        std::unique_ptr<char[]> r( new char[(size_t)n + 1] );
        if ( d && n )
            memcpy( r.get(), d, (size_t)n );
        out_n = d ? n : 0;
        return r;
    }
};

static std::string hdr_line( elfio& e )
{
    char b[1024];
    snprintf( b, sizeof b, "class=%u ver=%u enc=%u version=%u ehsize=%u shentsize=%u phentsize=%u osabi=%u abiver=%u type=%u machine=%u flags=%u entry=%llu shoff=%llu phoff=%llu shstrndx=%u nsec=%u nseg=%u",
              e.get_class(), e.get_elf_version(), e.get_encoding(), e.get_version(), e.get_header_size(),
              e.get_section_entry_size(), e.get_segment_entry_size(), e.get_os_abi(), e.get_abi_version(),
              e.get_type(), e.get_machine(), e.get_flags(), (unsigned long long)e.get_entry(),
              (unsigned long long)e.get_sections_offset(), (unsigned long long)e.get_segments_offset(),
              e.get_section_name_str_index(), (unsigned)e.sections.size(), (unsigned)e.segments.size() );
    return b;
}
static std::string sec_line( section* s )
{
    const char* d = s->get_data();
    char        b[1024];
    snprintf( b, sizeof b, "idx=%u name=%s nameoff=%u type=%u flags=%llu addr=%llu off=%llu size=%llu link=%u info=%u align=%llu entsize=%llu data=",
              s->get_index(), hex( s->get_name() ).c_str(), s->get_name_string_offset(), s->get_type(),
              (unsigned long long)s->get_flags(), (unsigned long long)s->get_address(),
              (unsigned long long)s->get_offset(), (unsigned long long)s->get_size(), s->get_link(),
              s->get_info(), (unsigned long long)s->get_addr_align(), (unsigned long long)s->get_entry_size() );
    return std::string( b ) + datastr( d, (size_t)s->get_size() );
}
static std::string seg_line( segment* g )
{
    const char* d = g->get_data();
    std::string m;
    for ( Elf_Half k = 0; k < g->get_sections_num(); ++k )
        m += ( m.empty() ? "" : "," ) + std::to_string( g->get_section_index_at( k ) );
    char b[1024];
    snprintf( b, sizeof b, "idx=%u type=%u flags=%u off=%llu vaddr=%llu paddr=%llu filesz=%llu memsz=%llu align=%llu members=%s data=",
              g->get_index(), g->get_type(), g->get_flags(), (unsigned long long)g->get_offset(),
              (unsigned long long)g->get_virtual_address(), (unsigned long long)g->get_physical_address(),
              (unsigned long long)g->get_file_size(), (unsigned long long)g->get_memory_size(),
              (unsigned long long)g->get_align(), m.empty() ? "-" : m.c_str() );
    return std::string( b ) + datastr( d, (size_t)g->get_file_size() );
}

// the edit vocabulary of the loader/writer family (harness/load.cpp), on one object
static std::string edit( elfio& e, const Toks& t )
{
    const std::string& op = t[0];
    std::string        d;
    if ( op == "hset" && t.size() == 3 ) {
        unsigned long long v = num( t[2] );
        if ( t[1] == "os_abi" ) e.set_os_abi( (unsigned char)v );
        else if ( t[1] == "abi_version" ) e.set_abi_version( (unsigned char)v );
        else if ( t[1] == "type" ) e.set_type( (Elf_Half)v );
        else if ( t[1] == "machine" ) e.set_machine( (Elf_Half)v );
        else if ( t[1] == "flags" ) e.set_flags( (Elf_Word)v );
        else if ( t[1] == "entry" ) e.set_entry( v );
        return "ok";
    }
    if ( op == "addsec" ) {
        std::string nm;
        kv( t, "name", nm );
        section* s = e.sections.add( unhex( nm ) );
        s->set_type( (Elf_Word)kvn( t, "type", 1 ) );
        s->set_flags( kvn( t, "flags", 0 ) );
        s->set_addr_align( kvn( t, "align", 0 ) );
        s->set_entry_size( kvn( t, "entsize", 0 ) );
        s->set_link( (Elf_Word)kvn( t, "link", 0 ) );
        s->set_info( (Elf_Word)kvn( t, "info", 0 ) );
        if ( kv( t, "addr", d ) )
            s->set_address( num( d ) );
        if ( kv( t, "data", d ) ) {
            std::string b = unhex( d );
            s->set_data( b.data(), b.size() );
        }
        if ( kv( t, "size", d ) )
            s->set_size( num( d ) );
        return "idx=" + std::to_string( s->get_index() );
    }
    if ( op == "secset" && t.size() == 4 ) {
        section* s = e.sections[(unsigned)num( t[1] )];
        if ( !s )
            return "null";
        unsigned long long v = num( t[3] );
        if ( t[2] == "type" ) s->set_type( (Elf_Word)v );
        else if ( t[2] == "flags" ) s->set_flags( v );
        else if ( t[2] == "info" ) s->set_info( (Elf_Word)v );
        else if ( t[2] == "link" ) s->set_link( (Elf_Word)v );
        else if ( t[2] == "align" ) s->set_addr_align( v );
        else if ( t[2] == "entsize" ) s->set_entry_size( v );
        else if ( t[2] == "addr" ) s->set_address( v );
        else if ( t[2] == "size" ) s->set_size( v );
        else if ( t[2] == "nameoff" ) s->set_name_string_offset( (Elf_Word)v );
        return "ok";
    }
    if ( op == "secedit" && t.size() >= 4 ) {
        section* s = e.sections[(unsigned)num( t[1] )];
        if ( !s )
            return "null";
        if ( t[2] == "set" ) {
            std::string b = unhex( t[3] );
            s->set_data( b.data(), b.size() );
        }
        else if ( t[2] == "app" ) {
            std::string b = unhex( t[3] );
            s->append_data( b.data(), b.size() );
        }
        else if ( t[2] == "ins" && t.size() == 5 ) {
            std::string b = unhex( t[4] );
            s->insert_data( num( t[3] ), b.data(), b.size() );
        }
        return "ok";
    }
    if ( op == "addseg" ) {
        segment* g = e.segments.add();
        g->set_type( (Elf_Word)kvn( t, "type", 1 ) );
        g->set_flags( (Elf_Word)kvn( t, "flags", 0 ) );
        g->set_align( kvn( t, "align", 0 ) );
        g->set_virtual_address( kvn( t, "vaddr", 0 ) );
        g->set_physical_address( kvn( t, "paddr", 0 ) );
        if ( kv( t, "memsz", d ) )
            g->set_memory_size( num( d ) );
        if ( kv( t, "filesz", d ) )
            g->set_file_size( num( d ) );
        return "idx=" + std::to_string( g->get_index() );
    }
    if ( op == "segadd" && t.size() >= 3 ) {
        unsigned j = (unsigned)num( t[1] ), i = (unsigned)num( t[2] );
        if ( j >= e.segments.size() )
            return "null";
        section*  s  = e.sections[i];
        Elf_Xword al = t.size() > 3 ? num( t[3] ) : ( s ? s->get_addr_align() : 0 );
        Elf_Half  n  = e.segments[j]->add_section_index( (Elf_Half)i, al );
        return "n=" + std::to_string( n );
    }
    return "bad-op";
}

struct World
{
    std::map<unsigned, elfio*> objs; // oK
    std::vector<elfio>         vec;  // vK
    std::vector<void*>         junk; // storage handed out again and overwritten

    // allocate blocks of the sizes an elfio object and its satellites occupy and overwrite them
    void poison()
    {
        static const size_t sizes[] = { sizeof( elfio ), sizeof( endianness_convertor ), sizeof( address_translator ),
                                        sizeof( std::ifstream ), sizeof( elfio ) * 2, sizeof( elfio ) * 4, 64, 128, 256 };
        for ( size_t sz : sizes )
            for ( int k = 0; k < 4; ++k ) {
                void* p = ::operator new( sz );
                memset( p, 0xA5, sz );
                junk.push_back( p );
            }
    }
    elfio* get( const std::string& n )
    {
        if ( n.size() < 2 )
            return nullptr;
        unsigned k = (unsigned)num( n.substr( 1 ) );
        if ( n[0] == 'o' ) {
            auto it = objs.find( k );
            return it == objs.end() ? nullptr : it->second;
        }
        if ( n[0] == 'v' )
            return k < vec.size() ? &vec[k] : nullptr;
        return nullptr;
    }
};

static void run_case( const std::vector<Toks>& ops, FILE* out )
{
    World w;
    for ( auto& t : ops ) {
        const std::string& op  = t[0];
        std::string        res = "bad-op";
        if ( op == "reuse" ) {
            w.poison();
            res = "ok";
        }
        else if ( op == "vnew" ) {
            w.vec.emplace_back();
            w.poison();
            res = "ok cap=" + std::to_string( w.vec.capacity() );
        }
        else if ( t.size() < 2 ) {
        }
        else if ( op == "new" ) {
            unsigned k = (unsigned)num( t[1].substr( 1 ) );
            if ( t[1][0] != 'o' || w.objs.count( k ) )
                res = "no-object";
            else {
                w.objs[k] = kvn( t, "comp", 0 ) == 1 ? new elfio( new null_compression ) : new elfio;
                res       = "ok";
            }
        }
        else if ( op == "mc" && t.size() == 3 ) {
            unsigned k   = (unsigned)num( t[1].substr( 1 ) );
            elfio*   src = w.get( t[2] );
            if ( t[1][0] != 'o' || w.objs.count( k ) || !src )
                res = "no-object";
            else {
                w.objs[k] = new elfio( std::move( *src ) );
                res       = "ok";
            }
        }
        else {
            elfio* e = w.get( t[1] );
            if ( !e )
                res = "no-object";
            else if ( op == "create" ) {
                unsigned char cls = kvn( t, "cls", 64 ) == 32 ? ELFCLASS32 : ELFCLASS64;
                std::string   en;
                unsigned char enc = ( kv( t, "enc", en ) && en == "msb" ) ? ELFDATA2MSB : ELFDATA2LSB;
                e->create( cls, enc );
                res = "ok";
            }
            else if ( op == "trans" ) {
                std::vector<address_translation> tr;
                for ( size_t i = 2; i + 2 < t.size(); i += 3 )
                    tr.emplace_back( num( t[i] ), num( t[i + 1] ), num( t[i + 2] ) );
                e->set_address_translation( tr );
                res = "ok";
            }
            else if ( op == "load" && t.size() >= 3 ) {
                std::string img  = unhex( t[2] );
                bool        lazy = kvn( t, "lazy", 0 ) == 1;
                static int  seq  = 0;
                std::string p    = "/tmp/vh_c19_" + std::to_string( getpid() ) + "_" + std::to_string( seq++ ) + ".bin";
                {
                    std::ofstream f( p, std::ios::binary );
                    f.write( img.data(), img.size() );
                }
                bool r = e->load( p, lazy );
                unlink( p.c_str() ); // the open descriptor stays valid for lazy reads
                res = std::string( "load=" ) + ( r ? "true" : "false" );
            }
            else if ( op == "loadmissing" ) {
                bool r = e->load( "/nonexistent-dir/vh_c19_missing.bin", kvn( t, "lazy", 0 ) == 1 );
                res    = std::string( "load=" ) + ( r ? "true" : "false" );
            }
            else if ( op == "ma" && t.size() == 3 ) {
                elfio* src = w.get( t[2] );
                if ( !src )
                    res = "no-object";
                else {
                    *e  = std::move( *src );
                    res = "ok";
                }
            }
            else if ( op == "del" ) {
                unsigned k = (unsigned)num( t[1].substr( 1 ) );
                if ( t[1][0] != 'o' )
                    res = "no-object";
                else {
                    delete e;
                    w.objs.erase( k );
                    w.poison();
                    res = "ok";
                }
            }
            else if ( op == "vpush" ) {
                w.vec.emplace_back( std::move( *e ) );
                w.poison();
                res = "ok cap=" + std::to_string( w.vec.capacity() );
            }
            else if ( op == "obs" ) {
                res = hdr_line( *e );
                for ( unsigned i = 0; i < e->sections.size(); ++i )
                    res += " | " + sec_line( e->sections[i] );
                for ( unsigned j = 0; j < e->segments.size(); ++j )
                    res += " | " + seg_line( e->segments[j] );
            }
            else if ( op == "save" ) {
                std::ostringstream os;
                g_deflate_calls      = 0;
                bool               r = e->save( os );
                res = std::string( "save=" ) + ( r ? "true" : "false" ) + " bytes=" + hex( os.str() ) +
                      " ~~ deflate=" + std::to_string( g_deflate_calls );
            }
            else if ( op == "ed" && t.size() >= 3 ) {
                // an object without header (moved-from, not re-initialised) is not edited
                if ( e->get_class() == 0 )
                    res = "empty";
                else
                    res = edit( *e, Toks( t.begin() + 2, t.end() ) );
            }
        }
        fprintf( out, "%s\n", res.c_str() );
        fflush( out );
    }
    // everything still alive is destroyed here: moved-from, re-used and vector objects included
    for ( auto& kvp : w.objs )
        delete kvp.second;
    w.vec.clear();
    fprintf( out, "teardown=ok\n" );
    fflush( out );
}

int main() { return run_all( std::cin, run_case ); }
