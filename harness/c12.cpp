// Correspondence harness, family c12: dynamic_section_accessor on the real code.
//   dyn cls=32|64 enc=lsb|msb entsize=N link=str|none|wrap type=T   create .dynstr + .dynamic + accessor
//   add TAG VALUE | adds TAG HEXSTR | num | get I                   on the accessor object created by `dyn`/`reload`
//   fnum | fget I                                                   on a new accessor object
//   dump | reload (save, load, new accessor) | settype T
#define VH_MAIN
#include "common.hpp"
using namespace ELFIO;
using namespace vh;

struct Ctx
{
    std::unique_ptr<std::istringstream>       stream; // outlives the object loaded from it
    std::unique_ptr<elfio>                    elf;
    section*                                  dyn = nullptr;
    std::unique_ptr<dynamic_section_accessor> acc;
};

static const Elf_Xword SENT_TAG = 0xA5A5A5A5A5A5A5A5ull, SENT_VAL = 0x5A5A5A5A5A5A5A5Aull;

static void show_get( const dynamic_section_accessor& a, Elf_Xword i, FILE* out )
{
    Elf_Xword   tag = SENT_TAG, value = SENT_VAL;
    std::string str = "\x01sentinel";
    bool        ok  = a.get_entry( i, tag, value, str );
    if ( ok )
        fprintf( out, "ok tag=%llu value=%llu str=%s\n", (unsigned long long)tag, (unsigned long long)value, hex( str ).c_str() );
    else if ( tag == SENT_TAG && value == SENT_VAL && str == "\x01sentinel" )
        fprintf( out, "invalid\n" );
    else
        fprintf( out, "nostr tag=%llu value=%llu%s\n", (unsigned long long)tag, (unsigned long long)value, str.empty() ? "" : " str-not-cleared" );
}

static section* linked( Ctx& c ) { return c.elf->sections[(Elf_Half)c.dyn->get_link()]; }

static std::string data_hex( section* s )
{
    const char* d = s->get_data();
    return d ? hex( d, (size_t)s->get_size() ) : std::string( "null" );
}

static void run_case( const std::vector<Toks>& ops, FILE* out )
{
    Ctx c;
    for ( auto& t : ops ) {
        const std::string& op = t[0];
        if ( op == "dyn" ) {
            unsigned char cls = kvn( t, "cls", 64 ) == 32 ? ELFCLASS32 : ELFCLASS64;
            std::string   e, l;
            unsigned char enc = ( kv( t, "enc", e ) && e == "msb" ) ? ELFDATA2MSB : ELFDATA2LSB;
            c.elf             = std::make_unique<elfio>();
            c.elf->create( cls, enc );
            c.elf->set_type( ET_REL );
            section* str = c.elf->sections.add( ".dynstr" );
            str->set_type( SHT_STRTAB );
            c.dyn = c.elf->sections.add( ".dynamic" );
            c.dyn->set_type( (Elf_Word)kvn( t, "type", SHT_DYNAMIC ) );
            c.dyn->set_entry_size( kvn( t, "entsize", 0 ) );
            kv( t, "link", l );
            Elf_Word link = l == "none" ? 999 : l == "wrap" ? 65536 + str->get_index() : str->get_index();
            c.dyn->set_link( link );
            c.acc = std::make_unique<dynamic_section_accessor>( *c.elf, c.dyn );
            fprintf( out, "ok stridx=%u\n", (unsigned)str->get_index() );
            fflush( out );
            continue;
        }
        if ( !c.dyn ) {
            fprintf( out, "bad-op no-section\n" );
            continue;
        }
        if ( op == "add" && t.size() == 3 ) {
            c.acc->add_entry( num( t[1] ), (Elf_Xword)num( t[2] ) );
            fprintf( out, "size=%llu\n", (unsigned long long)c.dyn->get_size() );
        }
        else if ( op == "adds" && t.size() == 3 ) {
            c.acc->add_entry( num( t[1] ), unhex( t[2] ) );
            section* s = linked( c );
            if ( s )
                fprintf( out, "size=%llu strsize=%llu\n", (unsigned long long)c.dyn->get_size(), (unsigned long long)s->get_size() );
            else
                fprintf( out, "size=%llu strsize=none\n", (unsigned long long)c.dyn->get_size() );
        }
        else if ( op == "num" )
            fprintf( out, "num=%llu\n", (unsigned long long)c.acc->get_entries_num() );
        else if ( op == "get" && t.size() == 2 )
            show_get( *c.acc, num( t[1] ), out );
        else if ( op == "fnum" ) {
            dynamic_section_accessor b( *c.elf, c.dyn );
            fprintf( out, "num=%llu\n", (unsigned long long)b.get_entries_num() );
        }
        else if ( op == "fget" && t.size() == 2 ) {
            dynamic_section_accessor b( *c.elf, c.dyn );
            show_get( b, num( t[1] ), out );
        }
        else if ( op == "dump" ) {
            section* s = linked( c );
            fprintf( out, "dyn=%s str=%s\n", data_hex( c.dyn ).c_str(), s ? data_hex( s ).c_str() : "none" );
        }
        else if ( op == "settype" && t.size() == 2 ) {
            c.dyn->set_type( (Elf_Word)num( t[1] ) );
            fprintf( out, "ok\n" );
        }
        else if ( op == "reload" ) {
            std::ostringstream os;
            if ( !c.elf->save( os ) ) {
                fprintf( out, "bad-op save-failed\n" );
                continue;
            }
            auto is = std::make_unique<std::istringstream>( os.str() );
            auto e2 = std::make_unique<elfio>();
            if ( !e2->load( *is ) ) {
                fprintf( out, "bad-op load-failed\n" );
                continue;
            }
            section* d2 = e2->sections[".dynamic"];
            if ( !d2 ) {
                fprintf( out, "bad-op no-dynamic-after-reload\n" );
                continue;
            }
            c.acc.reset();
            c.elf    = std::move( e2 );
            c.stream = std::move( is );
            c.dyn    = d2;
            c.acc = std::make_unique<dynamic_section_accessor>( *c.elf, c.dyn );
            fprintf( out, "reloaded\n" );
        }
        else
            fprintf( out, "bad-op\n" );
        fflush( out );
    }
}

int main() { return run_all( std::cin, run_case ); }
