// Correspondence harness, family c10: arrange_local_symbols with the swap callback forwarded to
// relocation tables, on tables built through the real accessors.
#define VH_MAIN
#include "common.hpp"
using namespace ELFIO;
using namespace vh;

struct Ctx
{
    std::unique_ptr<elfio> elf;
    section*               str = nullptr;
    section*               sym = nullptr;
    std::vector<section*>  rels;
};

static void dump( Ctx& c, FILE* out )
{
    symbol_section_accessor syms( *c.elf, c.sym );
    Elf_Xword               n = syms.get_symbols_num();
    std::string             line = "syms=" + std::to_string( n );
    for ( Elf_Xword i = 0; i < n; ++i ) {
        std::string   name;
        Elf64_Addr    value = 0;
        Elf_Xword     size  = 0;
        unsigned char bind = 0, type = 0, other = 0;
        Elf_Half      shndx = 0;
        if ( !syms.get_symbol( i, name, value, size, bind, type, shndx, other ) ) {
            line += " false";
            continue;
        }
        line += " " + hex( name ) + ":" + std::to_string( value ) + ":" + std::to_string( size ) + ":" +
                std::to_string( (unsigned)bind ) + ":" + std::to_string( (unsigned)type ) + ":" +
                std::to_string( (unsigned)shndx ) + ":" + std::to_string( (unsigned)other );
    }
    for ( section* rs : c.rels ) {
        relocation_section_accessor rel( *c.elf, rs );
        Elf_Xword                   m = rel.get_entries_num();
        line += " rels=" + std::to_string( m );
        for ( Elf_Xword i = 0; i < m; ++i ) {
            Elf64_Addr offset = 0;
            Elf_Word   symbol = 0;
            unsigned   type   = 0;
            Elf_Sxword addend = 0;
            if ( !rel.get_entry( i, offset, symbol, type, addend ) ) {
                line += " false";
                continue;
            }
            line += " " + std::to_string( offset ) + ":" + std::to_string( symbol ) + ":" + std::to_string( type ) +
                    ":" + std::to_string( (long long)addend );
        }
    }
    fprintf( out, "%s\n", line.c_str() );
    fflush( out );
}

static void run_case( const std::vector<Toks>& ops, FILE* out )
{
    Ctx c;
    for ( auto& t : ops ) {
        const std::string& op = t[0];
        if ( op == "cfg" ) {
            unsigned char cls = kvn( t, "cls", 64 ) == 32 ? ELFCLASS32 : ELFCLASS64;
            std::string   e;
            unsigned char enc = ( kv( t, "enc", e ) && e == "msb" ) ? ELFDATA2MSB : ELFDATA2LSB;
            c.elf             = std::make_unique<elfio>();
            c.elf->create( cls, enc );
            c.elf->set_type( ET_REL );
            c.str = c.elf->sections.add( ".strtab" );
            c.str->set_type( SHT_STRTAB );
            c.sym = c.elf->sections.add( ".symtab" );
            c.sym->set_type( SHT_SYMTAB );
            c.sym->set_link( c.str->get_index() );
            c.sym->set_entry_size( c.elf->get_default_entry_size( SHT_SYMTAB ) );
            c.rels.clear();
            fprintf( out, "ok\n" );
            fflush( out );
            continue;
        }
        if ( !c.elf ) {
            fprintf( out, "bad-op\n" );
            continue;
        }
        if ( op == "sym" ) {
            std::string h;
            kv( t, "name", h );
            std::string             name = unhex( h );
            string_section_accessor strs( c.str );
            symbol_section_accessor syms( *c.elf, c.sym );
            Elf_Word                idx = syms.add_symbol( strs, name.c_str(), kvn( t, "value" ), kvn( t, "size" ),
                                                           (unsigned char)kvn( t, "info" ), (unsigned char)kvn( t, "other" ),
                                                           (Elf_Half)kvn( t, "shndx" ) );
            fprintf( out, "idx=%u\n", (unsigned)idx );
        }
        else if ( op == "symraw" && t.size() == 2 ) {
            std::string d = unhex( t[1] );
            c.sym->set_data( d.data(), d.size() );
            fprintf( out, "ok\n" );
        }
        else if ( op == "entsize" && t.size() == 2 ) {
            c.sym->set_entry_size( num( t[1] ) );
            fprintf( out, "ok\n" );
        }
        else if ( op == "rel" ) {
            std::string k;
            bool        rela = kv( t, "kind", k ) && k == "rela";
            section*    rs   = c.elf->sections.add( rela ? ".rela.x" : ".rel.x" );
            rs->set_type( rela ? SHT_RELA : SHT_REL );
            rs->set_link( c.sym->get_index() );
            rs->set_entry_size( c.elf->get_default_entry_size( rela ? SHT_RELA : SHT_REL ) );
            c.rels.push_back( rs );
            fprintf( out, "ok\n" );
        }
        else if ( op == "r" ) {
            if ( c.rels.empty() ) {
                fprintf( out, "bad-op no-table\n" );
                continue;
            }
            section*                    rs = c.rels.back();
            relocation_section_accessor rel( *c.elf, rs );
            if ( rs->get_type() == SHT_RELA )
                rel.add_entry( kvn( t, "off" ), (Elf_Word)kvn( t, "sym" ), (unsigned)kvn( t, "type" ),
                               (Elf_Sxword)kvn( t, "add" ) );
            else
                rel.add_entry( kvn( t, "off" ), (Elf_Word)kvn( t, "sym" ), (unsigned)kvn( t, "type" ) );
            fprintf( out, "n=%llu\n", (unsigned long long)rel.get_entries_num() );
        }
        else if ( op == "arrange" ) {
            symbol_section_accessor                  syms( *c.elf, c.sym );
            std::vector<relocation_section_accessor> tabs;
            for ( section* rs : c.rels )
                tabs.emplace_back( *c.elf, rs );
            Elf_Xword ret;
            if ( kvn( t, "cb", 1 ) == 1 )
                ret = syms.arrange_local_symbols( [&]( Elf_Xword first, Elf_Xword second ) {
                    for ( auto& r : tabs )
                        r.swap_symbols( first, second );
                } );
            else
                ret = syms.arrange_local_symbols();
            fprintf( out, "ret=%llu info=%u\n", (unsigned long long)ret, (unsigned)c.sym->get_info() );
        }
        else if ( op == "dump" ) {
            dump( c, out );
            continue;
        }
        else {
            fprintf( out, "bad-op\n" );
            continue;
        }
        fflush( out );
    }
}

// every case takes milliseconds; a child that needs seconds is a hang of the code under test
int main() { return run_all( std::cin, run_case, 2 ); }
