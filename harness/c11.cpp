// Correspondence harness, family c11: relocation_section_accessor on the real code.
//   new cls=32|64 enc=lsb|msb type=<sh_type> entsize=<n>      -> size=0 data=-
//   addrel off sym type | addreli off info | addrela off sym type addend | addrelai off info addend
//   set idx off sym type addend | swap a b                      -> [ret=..] size=N data=<hex>
//   get idx -> ok off sym type addend | false      num -> n=K      dump -> n=K i:off,sym,type,addend ...
//   reload lazy=0|1 -> size=N saved=<hex>   (save, load the image again, continue on the loaded object;
//                                            `saved` = bytes of the image at the section's file offset)
#define VH_MAIN
#include "common.hpp"
using namespace ELFIO;
using namespace vh;

struct Ctx
{
    std::unique_ptr<elfio>              elf;
    std::unique_ptr<std::istringstream> stream;
    section*                            sec = nullptr;
};

static void show( Ctx& c, FILE* out, const char* pre = "" )
{
    const char* d = c.sec->get_data();
    Elf_Xword   n = c.sec->get_size();
    fprintf( out, "%ssize=%llu data=%s\n", pre, (unsigned long long)n, d ? hex( d, (size_t)n ).c_str() : "null" );
    fflush( out );
}

static std::string entry_str( relocation_section_accessor& ra, Elf_Xword i )
{
    Elf64_Addr off  = 0;
    Elf_Word   sym  = 0;
    unsigned   type = 0;
    Elf_Sxword add  = 0;
    if ( !ra.get_entry( i, off, sym, type, add ) )
        return "false";
    char buf[128];
    snprintf( buf, sizeof buf, "%llu,%u,%u,%lld", (unsigned long long)off, sym, type, (long long)add );
    return buf;
}

static void run_case( const std::vector<Toks>& ops, FILE* out )
{
    Ctx c;
    for ( auto& t : ops ) {
        const std::string& op = t[0];
        if ( op == "new" ) {
            unsigned char cls = kvn( t, "cls", 64 ) == 32 ? ELFCLASS32 : ELFCLASS64;
            std::string   e;
            unsigned char enc = ( kv( t, "enc", e ) && e == "msb" ) ? ELFDATA2MSB : ELFDATA2LSB;
            c.elf             = std::make_unique<elfio>();
            c.elf->create( cls, enc );
            c.elf->set_type( ET_REL );
            c.sec = c.elf->sections.add( ".rel.x" );
            c.sec->set_type( (Elf_Word)kvn( t, "type", SHT_REL ) );
            c.sec->set_entry_size( kvn( t, "entsize", 0 ) );
            show( c, out );
            continue;
        }
        if ( !c.sec ) {
            fprintf( out, "bad-op no-section\n" );
            continue;
        }
        relocation_section_accessor ra( *c.elf, c.sec );
        if ( op == "addrel" && t.size() == 4 ) {
            ra.add_entry( (Elf64_Addr)num( t[1] ), (Elf_Word)num( t[2] ), (unsigned)num( t[3] ) );
            show( c, out );
        }
        else if ( op == "addreli" && t.size() == 3 ) {
            ra.add_entry( (Elf64_Addr)num( t[1] ), (Elf_Xword)num( t[2] ) );
            show( c, out );
        }
        else if ( op == "addrela" && t.size() == 5 ) {
            ra.add_entry( (Elf64_Addr)num( t[1] ), (Elf_Word)num( t[2] ), (unsigned)num( t[3] ), (Elf_Sxword)snum( t[4] ) );
            show( c, out );
        }
        else if ( op == "addrelai" && t.size() == 4 ) {
            ra.add_entry( (Elf64_Addr)num( t[1] ), (Elf_Xword)num( t[2] ), (Elf_Sxword)snum( t[3] ) );
            show( c, out );
        }
        else if ( op == "set" && t.size() == 6 ) {
            bool r = ra.set_entry( num( t[1] ), (Elf64_Addr)num( t[2] ), (Elf_Word)num( t[3] ), (unsigned)num( t[4] ),
                                   (Elf_Sxword)snum( t[5] ) );
            show( c, out, r ? "ret=true " : "ret=false " );
        }
        else if ( op == "swap" && t.size() == 3 ) {
            ra.swap_symbols( num( t[1] ), num( t[2] ) );
            show( c, out );
        }
        else if ( op == "get" && t.size() == 2 ) {
            std::string s = entry_str( ra, num( t[1] ) );
            fprintf( out, "%s%s\n", s == "false" ? "" : "ok ", s.c_str() );
        }
        else if ( op == "num" ) {
            fprintf( out, "n=%llu\n", (unsigned long long)ra.get_entries_num() );
        }
        else if ( op == "dump" ) {
            Elf_Xword   n = ra.get_entries_num();
            std::string s = "n=" + std::to_string( n );
            for ( Elf_Xword i = 0; i < n; ++i )
                s += " " + std::to_string( i ) + ":" + entry_str( ra, i );
            fprintf( out, "%s\n", s.c_str() );
        }
        else if ( op == "reload" ) {
            std::ostringstream os;
            if ( !c.elf->save( os ) ) {
                fprintf( out, "bad-op save-failed\n" );
                continue;
            }
            std::string img = os.str();
            Elf_Half    idx = c.sec->get_index();
            auto        st  = std::make_unique<std::istringstream>( img );
            auto        e2  = std::make_unique<elfio>();
            if ( !e2->load( *st, kvn( t, "lazy", 0 ) == 1 ) || idx >= e2->sections.size() ) {
                fprintf( out, "bad-op load-failed\n" );
                continue;
            }
            c.elf    = std::move( e2 );
            c.stream = std::move( st );
            c.sec    = c.elf->sections[idx];
            Elf_Xword n = c.sec->get_size(), o = c.sec->get_offset();
            std::string saved = ( o <= img.size() && n <= img.size() - o ) ? img.substr( (size_t)o, (size_t)n ) : std::string( "?" );
            fprintf( out, "size=%llu saved=%s\n", (unsigned long long)n, hex( saved ).c_str() );
        }
        else {
            fprintf( out, "bad-op\n" );
            continue;
        }
        fflush( out );
    }
}

int main() { return run_all( std::cin, run_case ); }
