// ---- C18 table query ops (family load): relocation entries without and with symbol resolution,
// symbol lookup by name / by value (SysV and GNU hash walks), array entries, symbol-version indices,
// version requirement / definition entries, arrange_local_symbols (+ swap_symbols callback), swap_symbols on the
// sections of a LOADED object.  Included by load.cpp after `struct Ctx`.
// Every op prints exactly one line; the line is assembled first and printed at the end, so that a
// sanitizer abort in the middle of an op leaves no partial output.
#pragma once

namespace c18 {

using ull = unsigned long long;

// the index set of the property: {0, 1, count-1, count, count+1, 2^32-1}, distinct, in this order;
// `wide` = the interface takes a 64-bit index (otherwise values above 2^32-1 are dropped)
static std::vector<ull> bidx( ull count, bool wide )
{
    std::vector<ull> c{ 0, 1 };
    if ( count >= 1 )
        c.push_back( count - 1 );
    c.push_back( count );
    if ( count + 1 != 0 )
        c.push_back( count + 1 );
    c.push_back( 4294967295ULL );
    std::vector<ull> r;
    for ( auto v : c ) {
        if ( !wide && v > 4294967295ULL )
            continue;
        bool dup = false;
        for ( auto w : r )
            dup = dup || w == v;
        if ( !dup )
            r.push_back( v );
    }
    return r;
}

static std::string u( ull v ) { return std::to_string( v ); }
static std::string bstr( const std::string& s ) { return datastr( s.data(), s.size() ); }

static bool op( Ctx& c, const Toks& t, FILE* out )
{
    const std::string& op = t[0];
    if ( op == "alarm" && t.size() == 2 ) { // per-case time limit of this family (timeouts are faults)
        unsigned secs = (unsigned)num( t[1] );
        if ( const char* e = getenv( "VH_TIMEOUT_SCALE" ) ) // check.py re-runs timed-out cases alone with a scaled limit
            secs *= (unsigned)std::max( 1, atoi( e ) );
        alarm( secs );
        fprintf( out, "ok\n" );
        return true;
    }
    if ( op != "rel" && op != "symname" && op != "symvalue" && op != "arr32" && op != "arr64" && op != "versym" &&
         op != "verneed" && op != "verdef" && op != "arrange" && op != "swap" )
        return false;
    if ( t.size() < 2 ) {
        fprintf( out, "bad-op\n" );
        return true;
    }
    elfio&   e   = *c.elf;
    unsigned i   = (unsigned)num( t[1] );
    section* sec = e.sections[i];
    if ( !sec ) {
        fprintf( out, "null\n" );
        return true;
    }
    std::string s;
    if ( op == "rel" ) {
        relocation_section_accessor a( e, sec );
        Elf_Xword                   n = a.get_entries_num();
        s                             = "rel n=" + u( n );
        for ( auto k : bidx( n, true ) ) {
            Elf64_Addr offset = 0;
            Elf_Word   symbol = 0;
            unsigned   type   = 0;
            Elf_Sxword addend = 0;
            bool       r      = a.get_entry( k, offset, symbol, type, addend );
            s += " " + u( k ) + ":p:" + ( r ? "true" : "false" ) + "/" + u( offset ) + "/" + u( symbol ) + "/" + u( type ) +
                 "/" + u( (ull)addend );
            Elf64_Addr  off2 = 0, symval = 0;
            std::string symname;
            unsigned    type2 = 0;
            Elf_Sxword  add2 = 0, calc = 0;
            bool        r2 = a.get_entry( k, off2, symval, symname, type2, add2, calc );
            s += " " + u( k ) + ":r:" + ( r2 ? "true" : "false" ) + "/" + u( off2 ) + "/" + u( symval ) + "/" +
                 bstr( symname ) + "/" + u( type2 ) + "/" + u( (ull)add2 ) + "/" + u( (ull)calc );
        }
    }
    else if ( op == "symname" && t.size() >= 3 ) {
        symbol_section_accessor a( e, sec );
        std::string             name  = unhex( t[2] );
        Elf64_Addr              value = 0;
        Elf_Xword               size  = 0;
        unsigned char           bind = 0, type = 0, other = 0;
        Elf_Half                shndx = 0;
        bool                    r     = a.get_symbol( name, value, size, bind, type, shndx, other );
        s = std::string( "symname " ) + ( r ? "true" : "false" ) + "/" + u( value ) + "/" + u( size ) + "/" + u( bind ) + "/" +
            u( type ) + "/" + u( shndx ) + "/" + u( other );
    }
    else if ( op == "symvalue" && t.size() >= 3 ) {
        symbol_section_accessor a( e, sec );
        Elf64_Addr              value = num( t[2] );
        std::string             name;
        Elf_Xword               size = 0;
        unsigned char           bind = 0, type = 0, other = 0;
        Elf_Half                shndx = 0;
        bool                    r     = a.get_symbol( value, name, size, bind, type, shndx, other );
        s = std::string( "symvalue " ) + ( r ? "true" : "false" ) + "/" + bstr( name ) + "/" + u( size ) + "/" + u( bind ) + "/" +
            u( type ) + "/" + u( shndx ) + "/" + u( other );
    }
    else if ( op == "arr32" || op == "arr64" ) {
        array_section_accessor<Elf32_Word> a32( e, sec );
        array_section_accessor<Elf64_Addr> a64( e, sec );
        bool                               w4 = op == "arr32";
        Elf_Xword                          n  = w4 ? a32.get_entries_num() : a64.get_entries_num();
        s                                     = op + " n=" + u( n );
        for ( auto k : bidx( n, true ) ) {
            Elf64_Addr addr = 0;
            bool       r    = w4 ? a32.get_entry( k, addr ) : a64.get_entry( k, addr );
            s += " " + u( k ) + ":" + ( r ? "true" : "false" ) + "/" + u( addr );
        }
    }
    else if ( op == "versym" ) {
        versym_section_accessor a( sec );
        Elf_Word                n = a.get_entries_num();
        s                         = "versym n=" + u( n );
        for ( auto k : bidx( n, false ) ) {
            Elf_Half v = 0;
            bool     r = a.get_entry( (Elf_Word)k, v );
            s += " " + u( k ) + ":" + ( r ? "true" : "false" ) + "/" + u( v );
        }
    }
    else if ( op == "verneed" ) {
        versym_r_section_accessor a( e, sec );
        Elf_Word                  n = a.get_entries_num();
        s                           = "verneed n=" + u( n );
        for ( auto k : bidx( n, false ) ) {
            Elf_Half    version = 0, flags = 0, other = 0;
            Elf_Word    hash = 0;
            std::string file, dep;
            bool        r = a.get_entry( (Elf_Word)k, version, file, hash, flags, other, dep );
            s += " " + u( k ) + ":" + ( r ? "true" : "false" ) + "/" + u( version ) + "/" + bstr( file ) + "/" + u( hash ) +
                 "/" + u( flags ) + "/" + u( other ) + "/" + bstr( dep );
        }
    }
    else if ( op == "verdef" ) {
        versym_d_section_accessor a( e, sec );
        Elf_Word                  n = a.get_entries_num();
        s                           = "verdef n=" + u( n );
        for ( auto k : bidx( n, false ) ) {
            Elf_Half    flags = 0, ndx = 0;
            Elf_Word    hash = 0;
            std::string dep;
            bool        r = a.get_entry( (Elf_Word)k, flags, ndx, hash, dep );
            s += " " + u( k ) + ":" + ( r ? "true" : "false" ) + "/" + u( flags ) + "/" + u( ndx ) + "/" + u( hash ) + "/" +
                 bstr( dep );
        }
    }
    else if ( op == "swap" && t.size() >= 4 ) {
        // what the arrange callback forwards to, with arbitrary symbol indices
        relocation_section_accessor a( e, sec );
        a.swap_symbols( num( t[2] ), num( t[3] ) );
        s = "swap data=" + datastr( sec->get_data(), (size_t)sec->get_size() );
    }
    else if ( op == "arrange" ) {
        // the usual callback: every OTHER relocation section linked to this table swaps the two indices
        std::vector<section*> rels;
        Elf_Half              ns = e.sections.size();
        for ( Elf_Half j = 0; j < ns; ++j ) {
            section* r = e.sections[j];
            if ( j != i && ( r->get_type() == SHT_REL || r->get_type() == SHT_RELA ) && r->get_link() == i )
                rels.push_back( r );
        }
        symbol_section_accessor a( e, sec );
        Elf_Xword               ret = a.arrange_local_symbols( [&]( Elf_Xword first, Elf_Xword second ) {
            for ( auto* r : rels ) {
                relocation_section_accessor ra( e, r );
                ra.swap_symbols( first, second );
            }
        } );
        s = "arrange ret=" + u( ret ) + " info=" + u( sec->get_info() ) + " data=" + datastr( sec->get_data(), (size_t)sec->get_size() );
        for ( auto* r : rels )
            s += " rel" + u( r->get_index() ) + "=" + datastr( r->get_data(), (size_t)r->get_size() );
    }
    else {
        fprintf( out, "bad-op\n" );
        return true;
    }
    fprintf( out, "%s\n", s.c_str() );
    return true;
}

} // namespace c18
// ---- end of C18 table query ops
